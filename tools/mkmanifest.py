#!/usr/bin/env python3
""" Regenerate MANIFEST.json from the table below (keeps it schema-valid). """
import json
import os

HERE = os.path.dirname(os.path.dirname(os.path.abspath(__file__)))

ASSUME_COMMON = ("Trusted: Lean kernel + axioms propext/Classical.choice/Quot.sound; the "
                 "hand-written Lean model is tied to /repo only by this run's correspondence "
                 "check (generators, canonicalisation and Python-computed oracle tables for "
                 "re/codecs/datetime/os are unverified). ")

CORR = ("Correspondence: the real code (imported from /repo) and the executable Lean model run "
        "on the same generated cases and are diffed; the property is also checked directly "
        "(spec layer) so a disagreement comes with a failing input. ")

TRANSLATOR = {
    'C04': "find_token, find_token_reverse, try_find_line, try_find_line_with_date, __getitem__",
    'C09': "logrotate_log_sort (control flow around the three NameRx expressions)",
    'C11': "find_token, find_token_reverse, try_find_line, try_find_line_with_date, __getitem__",
    'C13': "find_token, find_token_reverse, try_find_line, try_find_line_with_date, __getitem__",
    'C06': "ResultStoreParallel.preallocate (its sequential meaning)",
    'C07': "SearchConstraintsManager.apply_single",
    'C15': "allocations, _allocate_next, _add_to_store, preallocate",
    'C16': "the window part of __init__ + since_date, _line_date_is_valid, apply_to_line",
    'C18': "num_parallel_tasks",
}


def translator_text(pid):
    fns = TRANSLATOR.get(pid)
    if not fns:
        return '', '', ''
    return (f"Translator tie (DESIGN 0.48): {fns} are re-translated from /repo's source into Lean "
            "on every run (harness/vh/pytolean.py) and proved EQUAL to the model functions "
            "(bridge theorems Sk.Gen.bridge_*, re-checked against the new text when the source "
            "changed). ",
            "The translator and SkModel/Gen/PyPrim.lean (meaning of file read/seek, bytes.find, "
            "Python integer operators) are trusted for the bridge; a function that leaves the "
            "translatable fragment falls back to the correspondence tie alone (recorded in the "
            "evidence). ",
            " + source-to-Lean translation with bridge theorems")


CHECKS = {
    'C01': dict(
        text="Lean theorems C01_simple_exact/_meta + runTask_proj: for every line table and "
             "every set of registered definitions, what the model of the search loop reports for "
             "an unconstrained single-line search is exactly the declarative list of matching "
             "lines (order, 1-based numbers, values), whatever else is registered. " + CORR,
        note=ASSUME_COMMON + "CPython re, UTF-8 codec and binary line iteration are oracles.",
        technique="Lean 4 proof (induction over lines/definitions, projection lemma) + "
                  "differential correspondence check", ref="DESIGN.md §4 C01"),
    'C03': dict(
        text="Lean theorems C03_sections_exact/_identity: the sequence state machine of the "
             "model reports exactly the declaratively specified complete sections "
             "(Spec.sections) for every classification of lines, end present/absent, "
             "end-matches-empty, independent of other definitions. " + CORR +
             "Small-scope model-vs-spec exhaustive run inside Lean guards the statement.",
        note=ASSUME_COMMON + "uuid4 section ids are modelled by a per-definition counter.",
        technique="Lean 4 proof (simulation of the state machine by an abstract section "
                  "builder, equality with a declarative spec) + differential correspondence",
        ref="DESIGN.md §4 C03"),
    'C04': dict(
        text="Lean theorems: bisect over byte offsets with the nearest-dated-line lookup "
             "positions the file at the first in-window line under explicit decidable "
             "hypotheses (time-ordered, short undated runs, lines <= 1 MiB-256). " + CORR +
             "API level: results with the constraint equal the plain search of the suffix.",
        note=ASSUME_COMMON + "Timestamp extraction on the 64-byte window is an oracle table.",
        technique="Lean 4 proof (loop invariants with fuel, monotone bisect) + differential "
                  "correspondence at unit and API level", ref="DESIGN.md §4 C04"),
    'C07': dict(
        text="Lean theorems C07_gate_solo/_exact_simple/_exact_seq/_independent: a search with "
             "a homogeneous set of since constraints behaves exactly like the unconstrained "
             "search started at its first all-passing line; other searches are unaffected. "
             "Heterogeneous matcher sets: Lean witness of the deviation (known finding). " + CORR,
        note=ASSUME_COMMON + "Per-line constraint outcomes are oracle tables (Python re + "
             "datetime); proved for homogeneous constraint sets only.",
        technique="Lean 4 proof (gating lemma + projection) + differential correspondence",
        ref="DESIGN.md §4 C07"),
    'C11': dict(
        text="Lean theorems ftr_exact / ft_exact / C11_line_exact / _or_refuses / "
             "C11_position_shape / seek_no_assert: the chunked backward and forward scans "
             "return exactly the nearest line feeds (or refuse beyond the 1 MiB limit) for "
             "every content, offset and constants; the position a since constraint leaves is 0, "
             "EOF or just after a line feed for ALL contents and timestamp oracles. " + CORR +
             "try_find_line is run at EVERY offset of each generated content.",
        note=ASSUME_COMMON + "Binary file seek/read/tell semantics are assumed.",
        technique="Lean 4 proof (closed form of the scan loops by induction on fuel, "
                  "invariants over the walks) + differential correspondence at every offset",
        ref="DESIGN.md §4 C11"),
    'C14': dict(
        text="Lean theorems C14_*: for every collection built by add() calls, len/all/items/"
             "find_by_path/find_by_tag are consistent views and sequence lookups partition the "
             "matching results into sections, each from one file and one definition. " + CORR,
        note=ASSUME_COMMON + "Section ids unique per (file, definition) is a hypothesis "
             "(uuid4).", technique="Lean 4 proof (list/permutation lemmas over an association "
             "list model) + differential correspondence on synthetic and real populations",
        ref="DESIGN.md §4 C14"),
    'C15': dict(
        text="Lean theorems C15_* (inductive invariant over every addition history, any block "
             "supplier with disjoint blocks): injective append-only table, None never stored, "
             "indices from granted blocks used in order, new block only when exhausted, "
             "allocation error unreachable. " + CORR,
        note=ASSUME_COMMON + "Python ==/hash on str values; manager proxies behave like the "
             "objects they wrap (sampled with a real manager).",
        technique="Lean 4 proof (inductive invariant over add histories) + differential "
                  "correspondence on operation sequences", ref="DESIGN.md §4 C15"),
    'C16': dict(
        text="Lean theorems civil_order (lexicographic datetime order = order of seconds on "
             "Python's proleptic Gregorian ordinal), C16_pass_iff (boundary passes), "
             "C16_undecidable, C16_counters. " + CORR + "Python's since_date is checked "
             "against the Lean calendar on every case (ties timedelta to the model).",
        note=ASSUME_COMMON + "Timestamp extraction (regex, int conversion) is an oracle.",
        technique="Lean 4 proof (calendar arithmetic, decision logic) + differential "
                  "correspondence", ref="DESIGN.md §4 C16"),
}

CHECKS.update({
    'C02': dict(
        text="Lean theorems C02_inv/_final/_progress/_terminates/_maximal_returns + flush_*: for "
             "every schedule of tasks, collector thread and purge, collected ++ queued ++ "
             "not-yet-put = the task's sequential result list per path; at return nothing is "
             "left; no deadlock; batches re-assemble the result list. " + CORR +
             "Real multi-process runs are compared per path with the same file searched alone "
             "in-process; the recorded hand-over trace is replayed through the model.",
        note=ASSUME_COMMON + "OS scheduling, manager queue (FIFO per producer, a returned put is "
             "visible) are assumptions sampled by real runs.",
        technique="Lean 4 proof (inductive invariant + measure over a transition system) + "
                  "differential correspondence with trace validation", ref="DESIGN.md §4 C02"),
    'C05': dict(
        text="Lean theorems C05_roundtrip/_two_batches/_encode_total over C15: reading an "
             "exported result through ANY later state of the store gives exactly the captured "
             "values (by index, by name, by iteration, tag, sequence id), None for unmatched "
             "groups, regardless of duplicates / roll-over / textual collisions. " + CORR,
        note=ASSUME_COMMON + "Python ==/hash on str/int; cast functions are oracles; the "
             "parallel case composes C05 with C06_resolve (composition sampled by MP runs).",
        technique="Lean 4 proof (round trip through an append-only injective table) + "
                  "differential correspondence in-process and multi-process",
        ref="DESIGN.md §4 C05"),
    'C06': dict(
        text="Lean theorems C06_disjoint/_no_shared_index/_resolve/_nodeadlock/_bounded_work: "
             "for every interleaving of any number of workers at the granularity of single "
             "shared accesses, granted blocks are pairwise disjoint, handed-out indices never "
             "collide, synced indices resolve to the stored value, no deadlock. " + CORR +
             "The REAL ResultStoreParallel is driven by a controlled scheduler; every trace is "
             "replayed through the model's step relation.",
        note=ASSUME_COMMON + "Each single manager-proxy access is atomic; scheduler-level lock "
             "stands for multiprocessing.Lock.",
        technique="Lean 4 proof (inductive invariants over a labelled transition system) + "
                  "controlled-scheduler trace validation", ref="DESIGN.md §4 C06"),
    'C08': dict(
        text="Lean theorem C08_persist_independent: from whatever state earlier runs left in "
             "the definition objects the task yields the results of fresh objects (up to the "
             "renaming of fresh section ids). " + CORR + "Histories of runs sharing objects are "
             "compared run by run with the same scenario in a fresh interpreter.",
        note=ASSUME_COMMON + "A fresh interpreter is the reference for 'a fresh process'.",
        technique="Lean 4 proof (simulation between persisted and fresh state) + differential "
                  "correspondence against fresh interpreters", ref="DESIGN.md §4 C08"),
    'C09': dict(
        text="Lean theorems C09_*: stable sort + cap keeps exactly min(depth, n) lowest-keyed "
             "rotated copies per stem, plain and live files always kept, non-files ignored, no "
             "duplicates, one catalog entry per path carrying all searches in order. " + CORR +
             "Real directories registered as file / dir / glob.",
        note=ASSUME_COMMON + "The three regexes of search.py enter the model as their per-name "
             "result (oracle, cross-checked with an independent classifier).",
        technique="Lean 4 proof (sorting/permutation lemmas, association-list spec) + "
                  "differential correspondence on real directories", ref="DESIGN.md §4 C09"),
    'C10': dict(
        text="Lean theorems over the fault transition system (crash / raise labels, lock "
             "ownership, joins): from every reachable state a final state is reachable; a failed "
             "run ends raised with the store lock free and helper threads joined; a following "
             "run returns. " + CORR + "Fault enumeration on the real code, each plan in its own "
             "interpreter under a watchdog, followed by a second run.",
        note=ASSUME_COMMON + "ProcessPoolExecutor's broken-pool handling and process reaping are "
             "assumed; latency only bounded by a generous watchdog.",
        technique="Lean 4 proof (invariant + reachability of final states over a transition "
                  "system with fault labels) + fault enumeration", ref="DESIGN.md §4 C10"),
    'C12': dict(
        text="Lean theorem C12_gzip_transparent: in the model of execute() nothing but the open "
             "logic looks at the raw bytes, so gzip and plain give equal results and statistics "
             "(incl. the zero-length shortcut vs an empty archive). " + CORR +
             "Every C01/C03/C04/C07 scenario is run plain and gzip (levels 1/6/9, multi-member).",
        note=ASSUME_COMMON + "GzipFile's seek/tell/read emulation is assumed by the model and "
             "is what the correspondence exercises.",
        technique="Lean 4 proof (transparency lemma) + differential correspondence plain vs "
                  "gzip", ref="DESIGN.md §4 C12"),
    'C13': dict(
        text="Lean theorems C13_task_outcome/_iff/_file_outcome + seek_no_assert: the only error "
             "reachable from content is UnicodeDecodeError, exactly when a searched line does "
             "not decode; asserts unreachable; totality by construction. " + CORR +
             "Malformed content stream x decode policies x constraints with a hang watchdog.",
        note=ASSUME_COMMON + "CPython re run time is outside the model (claim is about "
             "content, not patterns).",
        technique="Lean 4 proof (unreachability of error constructors) + differential "
                  "correspondence on a malformed-input stream", ref="DESIGN.md §4 C13"),
    'C17': dict(
        text="Lean theorems C17_stats_exact/_per_job with runTask_stats and "
             "C08_persist_independent: statistics equal the counts of the run just finished. "
             + CORR + "Single/multi-file runs and repeated runs of one searcher.",
        note=ASSUME_COMMON, technique="Lean 4 proof (counting lemmas) + differential "
        "correspondence incl. repeated runs", ref="DESIGN.md §4 C17"),
    'C18': dict(
        text="Lean theorems C18_bounds/_value/_plan + pool system C18_pool_once/_workers/"
             "_final/_progress: parallelism = min(max_parallel_tasks, cpus, files) (0 => 1), one "
             "file in-process, every task executed exactly once by one of <= n workers for "
             "every schedule. " + CORR + "Exhaustive num_parallel_tasks table (10 725 "
             "configurations) and real runs with pid traces.",
        note=ASSUME_COMMON + "ProcessPoolExecutor(max_workers=n) spawning <= n processes is "
             "assumed (sampled).", technique="Lean 4 proof (arithmetic + transition system) + "
        "exhaustive table comparison + pid-trace witness validation", ref="DESIGN.md §4 C18"),
    'C19': dict(
        text="Lean theorems C19_linearizable/_returns/_per_process_order/_nodeadlock/"
             "_run_bounded: every interleaving of the lock-protected operations is a legal "
             "sequential register history in critical-section order. " + CORR +
             "Real processes on a shared path; critical-section trace replayed through the model; "
             "fallback linearisability search.",
        note=ASSUME_COMMON + "fasteners fcntl lock, dbm durability, CLOCK_MONOTONIC across "
             "processes are assumed.", technique="Lean 4 proof (linearisability by invariant) + "
        "trace validation of real multi-process histories", ref="DESIGN.md §4 C19"),
})

NOT_YET = {}


def main():
    with open(os.path.join(HERE, 'properties.jsonl')) as f:
        props = [json.loads(l) for l in f if l.strip()]
    checks = []
    na = []
    for p in props:
        pid = p['id']
        if pid in CHECKS:
            c = dict(CHECKS[pid])
            tt, tn, tq = translator_text(pid)
            c['text'] = c['text'].rstrip() + (' ' + tt if tt else '')
            c['note'] += (' ' + tn if tn else '')
            c['technique'] += tq
            checks.append({
                'property_id': pid,
                'quick_cmd': f"./check {pid} --tier quick",
                'thorough_cmd': f"./check {pid} --tier thorough",
                'evidence_file': f"evidence/{pid}.json",
                'replay_cmd_template': "./check replay {path}",
                'engine': 'lean-model+correspondence',
                'level_claimed': {'category': 'proof', 'text': c['text'],
                                  'design_ref': c['ref']},
                'level_note': c['note'],
                'technique': c['technique'],
            })
        else:
            na.append({'property_id': pid,
                       'reason': NOT_YET.get(pid, "check not built yet (work in progress; "
                                             "see DESIGN.md §4 for the planned theorem and "
                                             "correspondence)")})
    man = {
        'version': 1,
        'setup_cmd': "./check build",
        'hooks': {
            'guard': 'SEARCHKIT_VERIF',
            'enable': "no source hooks: the harness instruments searchkit from outside "
                      "(wrapping module-level names before the pool forks); the guard "
                      "variable is not read by /repo",
            'baseline_off_cmd': "cd /repo && /venv/bin/python -m pytest -ra -q -p "
                                "no:cacheprovider --timeout=900 "
                                "--continue-on-collection-errors",
            'source_commits': [],
            'add_only': True,
        },
        'engines': [{
            'name': 'lean-model+correspondence',
            'path': 'lean/ (model, specs, theorems, Gen/ = translated source + bridge theorems, driver), harness/ (correspondence, pytolean translator), check',
            'serves_properties': [c['property_id'] for c in checks],
            'kind_free_text': "hand-written executable Lean 4 model + kernel-checked theorems; "
                              "differential correspondence check of the model against /repo; "
                              "for fifteen functions also a Python-to-Lean translator whose output "
                              "is proved equal to the model (bridge theorems)",
        }],
        'checks': checks,
        'not_applicable': na,
        'notes': "See DESIGN.md. fix: commits in /repo are listed in known_findings.json.",
    }
    with open(os.path.join(HERE, 'MANIFEST.json'), 'w') as f:
        json.dump(man, f, indent=1)
        f.write('\n')


if __name__ == '__main__':
    main()
