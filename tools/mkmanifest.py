#!/usr/bin/env python3
""" Regenerate MANIFEST.json from the table below (keeps it schema-valid). """
import json
import os

HERE = os.path.dirname(os.path.dirname(os.path.abspath(__file__)))

ASSUME_COMMON = ("Trusted: Lean kernel + axioms propext/Classical.choice/Quot.sound; the "
                 "hand-written Lean model is tied to /repo only by this run's correspondence "
                 "check (generators, canonicalisation and Python-computed oracle tables for "
                 "re/codecs/datetime/os are unverified). ")

CORR = ("Correspondence: the real code (imported from /repo) and the executable Lean model run "
        "on the same generated cases and are diffed; the property is also checked directly "
        "(spec layer) so a disagreement comes with a failing input. ")

CHECKS = {
    'C01': dict(
        text="Lean theorems C01_simple_exact/_meta + runTask_proj: for every line table and "
             "every set of registered definitions, what the model of the search loop reports for "
             "an unconstrained single-line search is exactly the declarative list of matching "
             "lines (order, 1-based numbers, values), whatever else is registered. " + CORR,
        note=ASSUME_COMMON + "CPython re, UTF-8 codec and binary line iteration are oracles.",
        technique="Lean 4 proof (induction over lines/definitions, projection lemma) + "
                  "differential correspondence check", ref="DESIGN.md §4 C01"),
    'C03': dict(
        text="Lean theorems C03_sections_exact/_identity: the sequence state machine of the "
             "model reports exactly the declaratively specified complete sections "
             "(Spec.sections) for every classification of lines, end present/absent, "
             "end-matches-empty, independent of other definitions. " + CORR +
             "Small-scope model-vs-spec exhaustive run inside Lean guards the statement.",
        note=ASSUME_COMMON + "uuid4 section ids are modelled by a per-definition counter.",
        technique="Lean 4 proof (simulation of the state machine by an abstract section "
                  "builder, equality with a declarative spec) + differential correspondence",
        ref="DESIGN.md §4 C03"),
    'C04': dict(
        text="Lean theorems: bisect over byte offsets with the nearest-dated-line lookup "
             "positions the file at the first in-window line under explicit decidable "
             "hypotheses (time-ordered, short undated runs, lines <= 1 MiB-256). " + CORR +
             "API level: results with the constraint equal the plain search of the suffix.",
        note=ASSUME_COMMON + "Timestamp extraction on the 64-byte window is an oracle table.",
        technique="Lean 4 proof (loop invariants with fuel, monotone bisect) + differential "
                  "correspondence at unit and API level", ref="DESIGN.md §4 C04"),
    'C07': dict(
        text="Lean theorems C07_gate_solo/_exact_simple/_exact_seq/_independent: a search with "
             "a homogeneous set of since constraints behaves exactly like the unconstrained "
             "search started at its first all-passing line; other searches are unaffected. "
             "Heterogeneous matcher sets: Lean witness of the deviation (known finding). " + CORR,
        note=ASSUME_COMMON + "Per-line constraint outcomes are oracle tables (Python re + "
             "datetime); proved for homogeneous constraint sets only.",
        technique="Lean 4 proof (gating lemma + projection) + differential correspondence",
        ref="DESIGN.md §4 C07"),
    'C11': dict(
        text="Lean theorems ftr_exact / ft_exact / C11_line_exact / _or_refuses / "
             "C11_position_shape / seek_no_assert: the chunked backward and forward scans "
             "return exactly the nearest line feeds (or refuse beyond the 1 MiB limit) for "
             "every content, offset and constants; the position a since constraint leaves is 0, "
             "EOF or just after a line feed for ALL contents and timestamp oracles. " + CORR +
             "try_find_line is run at EVERY offset of each generated content.",
        note=ASSUME_COMMON + "Binary file seek/read/tell semantics are assumed.",
        technique="Lean 4 proof (closed form of the scan loops by induction on fuel, "
                  "invariants over the walks) + differential correspondence at every offset",
        ref="DESIGN.md §4 C11"),
    'C14': dict(
        text="Lean theorems C14_*: for every collection built by add() calls, len/all/items/"
             "find_by_path/find_by_tag are consistent views and sequence lookups partition the "
             "matching results into sections, each from one file and one definition. " + CORR,
        note=ASSUME_COMMON + "Section ids unique per (file, definition) is a hypothesis "
             "(uuid4).", technique="Lean 4 proof (list/permutation lemmas over an association "
             "list model) + differential correspondence on synthetic and real populations",
        ref="DESIGN.md §4 C14"),
    'C15': dict(
        text="Lean theorems C15_* (inductive invariant over every addition history, any block "
             "supplier with disjoint blocks): injective append-only table, None never stored, "
             "indices from granted blocks used in order, new block only when exhausted, "
             "allocation error unreachable. " + CORR,
        note=ASSUME_COMMON + "Python ==/hash on str values; manager proxies behave like the "
             "objects they wrap (sampled with a real manager).",
        technique="Lean 4 proof (inductive invariant over add histories) + differential "
                  "correspondence on operation sequences", ref="DESIGN.md §4 C15"),
    'C16': dict(
        text="Lean theorems civil_order (lexicographic datetime order = order of seconds on "
             "Python's proleptic Gregorian ordinal), C16_pass_iff (boundary passes), "
             "C16_undecidable, C16_counters. " + CORR + "Python's since_date is checked "
             "against the Lean calendar on every case (ties timedelta to the model).",
        note=ASSUME_COMMON + "Timestamp extraction (regex, int conversion) is an oracle.",
        technique="Lean 4 proof (calendar arithmetic, decision logic) + differential "
                  "correspondence", ref="DESIGN.md §4 C16"),
}

NOT_YET = {}


def main():
    with open(os.path.join(HERE, 'properties.jsonl')) as f:
        props = [json.loads(l) for l in f if l.strip()]
    checks = []
    na = []
    for p in props:
        pid = p['id']
        if pid in CHECKS:
            c = CHECKS[pid]
            checks.append({
                'property_id': pid,
                'quick_cmd': f"./check {pid} --tier quick",
                'thorough_cmd': f"./check {pid} --tier thorough",
                'evidence_file': f"evidence/{pid}.json",
                'replay_cmd_template': "./check replay {path}",
                'engine': 'lean-model+correspondence',
                'level_claimed': {'category': 'proof', 'text': c['text'],
                                  'design_ref': c['ref']},
                'level_note': c['note'],
                'technique': c['technique'],
            })
        else:
            na.append({'property_id': pid,
                       'reason': NOT_YET.get(pid, "check not built yet (work in progress; "
                                             "see DESIGN.md §4 for the planned theorem and "
                                             "correspondence)")})
    man = {
        'version': 1,
        'setup_cmd': "./check build",
        'hooks': {
            'guard': 'SEARCHKIT_VERIF',
            'enable': "no source hooks: the harness instruments searchkit from outside "
                      "(wrapping module-level names before the pool forks); the guard "
                      "variable is not read by /repo",
            'baseline_off_cmd': "cd /repo && /venv/bin/python -m pytest -ra -q -p "
                                "no:cacheprovider --timeout=900 "
                                "--continue-on-collection-errors",
            'source_commits': [],
            'add_only': True,
        },
        'engines': [{
            'name': 'lean-model+correspondence',
            'path': 'lean/ (model, specs, theorems, driver), harness/ (correspondence), check',
            'serves_properties': [c['property_id'] for c in checks],
            'kind_free_text': "hand-written executable Lean 4 model + kernel-checked theorems; "
                              "differential correspondence check of the model against /repo",
        }],
        'checks': checks,
        'not_applicable': na,
        'notes': "See DESIGN.md. fix: commits in /repo are listed in known_findings.json.",
    }
    with open(os.path.join(HERE, 'MANIFEST.json'), 'w') as f:
        json.dump(man, f, indent=1)
        f.write('\n')


if __name__ == '__main__':
    main()
