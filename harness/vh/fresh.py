"""
Reference runs in a fresh interpreter: `python -m vh.fresh` reads one scenario (JSON)
per line on stdin... no: exactly ONE scenario, so that nothing can leak between runs;
prints the canonical observation as JSON.
"""
import json
import os
import subprocess
import sys

HERE = os.path.dirname(os.path.abspath(__file__))


def main():
    sys.dont_write_bytecode = True
    sys.path.insert(0, os.path.dirname(HERE))
    from vh import scenario as S
    scn = json.loads(sys.stdin.read())
    print(json.dumps(S.run_impl(scn)))


def run_fresh(scn, timeout=120):
    p = subprocess.run([sys.executable, '-m', 'vh.fresh'], input=json.dumps(scn).encode(),
                       stdout=subprocess.PIPE, stderr=subprocess.PIPE, timeout=timeout,
                       cwd=os.path.dirname(HERE), check=False,
                       env=dict(os.environ, PYTHONPATH=os.path.dirname(HERE),
                                PYTHONDONTWRITEBYTECODE='1'))
    if p.returncode != 0:
        return {'err': 'fresh-interpreter-failed', 'stderr': p.stderr.decode()[-800:]}
    return json.loads(p.stdout.decode().strip().splitlines()[-1])


if __name__ == '__main__':
    main()
