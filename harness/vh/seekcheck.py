"""
Shared machinery of C11 / C04 (and the since-related parts of C12, C13): generators
of logs, the real seeker run at unit level, oracle tables and the Lean `seek` case.
"""
import os
import tempfile
from datetime import datetime, timedelta

from vh import core, gen

EPOCH = datetime(1970, 1, 1)
WINDOW = 64


def secs(dt):
    return None if dt is None else int((dt - EPOCH).total_seconds())


def live_constants():
    core.import_searchkit()
    from searchkit.constraints import LogFileDateSinceSeeker as S, LogLine
    return {'H': S.SEEK_HORIZON, 'EXP': S.MAX_SEEK_HORIZON_EXPAND,
            'ATT': S.MAX_TRY_FIND_WITH_DATE_ATTEMPTS, 'W': LogLine.MAX_DATETIME_READ_BYTES}


def ts_table(content, kind, window=WINDOW):
    """ [[offset, seconds, matched bytes]] for every offset whose window has a timestamp """
    from vh import matchers
    out = []
    starters = b'0123456789['
    for o in range(len(content)):
        b = content[o]
        if b < 0x80 and b not in starters:
            continue
        dt, mlen = matchers.oracle_ts_full(kind, content[o:o + window])
        if dt is not None:
            out.append([o, secs(dt), mlen])
    return out


def std_parser_crosscheck(drv, contents, window=WINDOW):
    """ the Lean parser of the standard timestamp format (SkModel.StdTs, the matcher the
    end-to-end C04 theorems are stated with) against Python's re + datetime on EVERY window of
    the given byte strings.  -> (windows compared, timestamps found, windows outside the
    model's ASCII domain).  A disagreement inside the domain is a defect of the model. """
    from vh import core as _core
    outs = drv.run([{'kind': 'stdts', 'W': window, 'bytes': list(c)} for c in contents])
    nwin = nts = ood = 0
    for c, o in zip(contents, outs):
        want = {r[0]: (r[1], r[2]) for r in ts_table(c, 'std', window)}
        # the Lean time line counts from ordinal day 0 (Civil.toSeconds), `secs` from 1970
        got = {r[0]: r[1] - EPOCH.toordinal() * 86400 for r in o['model']}
        nwin += len(c)
        nts += len(want)
        for off in set(want) | set(got):
            w = want.get(off)
            if w is not None and got.get(off) == w[0]:
                continue
            span = c[off:off + (w[1] if w else 40)]
            if any(b >= 0x80 for b in span):
                ood += 1                # Unicode digit / white space inside the timestamp
                continue
            raise _core.Infra(f"SkModel.StdTs disagrees with Python re/datetime at offset {off} "
                              f"of {c[off:off + 40]!r}: lean={got.get(off)} python={w}")
    return nwin, nts, ood


def lf_positions(content):
    out, i = [], content.find(b'\n')
    while i != -1:
        out.append(i)
        i = content.find(b'\n', i + 1)
    return out


def since_secs(c):
    from vh.scenario import since_date
    return secs(since_date(c))


def seek_case(content, cons, ops, consts):
    return {'kind': 'seek', 'len': len(content), 'lfs': lf_positions(content),
            'ts': ts_table(content, cons.get('matcher', 'std'), consts['W']),
            'since': since_secs(cons), 'H': consts['H'], 'EXP': consts['EXP'],
            'ATT': consts['ATT'], 'ops': ops}


def make_constraint(cons):
    core.import_searchkit()
    from searchkit.constraints import SearchConstraintSearchSince
    from vh import matchers
    kw = {k: cons[k] for k in ('days', 'hours') if k in cons}
    return SearchConstraintSearchSince(current_date=cons['current'],
                                       ts_matcher_cls=matchers.MATCHERS[cons.get('matcher', 'std')],
                                       **kw)


def classify(e):
    from searchkit import constraints as C
    for cls, name in ((C.MaxSearchableLineLengthReached, 'maxLineLen'),
                      (C.TooManyLinesWithoutDate, 'tooManyUndated'),
                      (C.NoTimestampsFoundInFile, 'noTimestamps'),
                      (C.NoValidLinesFoundInFile, 'noValidLines'),
                      (AssertionError, 'assertFailed')):
        if isinstance(e, cls):
            return name
    return 'other:' + type(e).__name__


def py_line_start(content, o):
    i = content.rfind(b'\n', 0, o)
    return i + 1 if i != -1 else 0


def py_line_end(content, o):
    i = content.find(b'\n', o)
    return i if i != -1 else len(content)


def impl_tfl_all(content, cons, offsets=None, order_seed=None, gz_members=0, sub_horizon=None):
    """
    try_find_line at every offset on ONE real seeker object.  The lookups are made in an
    order chosen from `order_seed` (ascending, descending, shuffled, or ascending followed
    by a descending second pass for small files): what a lookup returns must not depend on
    the lookups made before it.  Returns rows indexed like `offsets` (second-pass
    disagreements are reported in place of the row).
    """
    import random as _random
    core.import_searchkit()
    from searchkit.constraints import LogFileDateSinceSeeker
    c = make_constraint(cons)
    with tempfile.NamedTemporaryFile(prefix='vh-', delete=False) as f:
        if gz_members:
            # the same bytes as a gzip archive of `gz_members` members (the seeker is given the
            # GzipFile object the search task would open)
            import gzip as _gzip
            import io as _io
            n = len(content)
            cuts = [n * i // gz_members for i in range(gz_members + 1)]
            for a, b in zip(cuts, cuts[1:]):
                buf = _io.BytesIO()
                with _gzip.GzipFile(fileobj=buf, mode='wb', mtime=0) as g:
                    g.write(content[a:b])
                f.write(buf.getvalue())
        else:
            f.write(content)
        path = f.name
    offs = list(offsets if offsets is not None else range(len(content) + 1))
    rng = _random.Random(order_seed if order_seed is not None else 0)
    mode = rng.choice(['asc', 'desc', 'shuffle', 'asc+desc']) if order_seed is not None \
        else 'asc'
    if mode == 'asc+desc' and len(offs) > 1600:
        mode = 'shuffle'
    seq = list(range(len(offs)))
    if mode == 'desc':
        seq.reverse()
    elif mode == 'shuffle':
        rng.shuffle(seq)
    elif mode == 'asc+desc':
        seq = seq + seq[::-1]
    rows = [None] * len(offs)

    def lookup(seeker, o):
        try:
            l = seeker.try_find_line(o)
            s, e = l.start_offset, l.end_offset
            text_ok = l.text == content[py_line_start(content, o):py_line_end(content, o)]
            return [s, e, secs(l.date), text_ok]
        except Exception as ex:  # pylint: disable=broad-except
            return classify(ex)
    try:
        import gzip as _gzip2
        opener = (lambda: _gzip2.open(path, 'rb')) if gz_members else (lambda: open(path, 'rb'))
        with opener() as fd:
            cls = LogFileDateSinceSeeker
            if sub_horizon:
                # a sub-class that sets another SEEK_HORIZON (the way the class invites tuning):
                # whichever value the lookups then use, they must use ONE value consistently -
                # every lookup still has to return the line containing the byte
                cls = type('TunedSeeker', (LogFileDateSinceSeeker,), {'SEEK_HORIZON': sub_horizon})
            seeker = cls(fd, c)
            for k in seq:
                row = lookup(seeker, offs[k])
                if rows[k] is None:
                    rows[k] = row
                elif rows[k] != row and not isinstance(rows[k], dict):
                    rows[k] = {'unstable': [rows[k], row]}
    finally:
        os.unlink(path)
    return rows


def old_mtime(path, content):
    """ file metadata is not content: a third of the files get a modification time in the year
    2000 (older than any since date used), deterministically from the content """
    if (len(content) + sum(content[:16])) % 3 == 0:
        os.utime(path, (946684800, 946684800))


def impl_apply(content, cons, destructive=True):
    """ apply_to_file on a freshly opened file: (return value, fd.tell()) """
    core.import_searchkit()
    c = make_constraint(cons)
    with tempfile.NamedTemporaryFile(prefix='vh-', delete=False) as f:
        f.write(content)
        path = f.name
    old_mtime(path, content)
    try:
        with open(path, 'rb') as fd:
            try:
                ret = c.apply_to_file(fd) if destructive else \
                    c.apply_to_file(fd, destructive=False)
                return {'pos': fd.tell(), 'ret': ret}
            except Exception as ex:  # pylint: disable=broad-except
                return {'err': classify(ex)}
    finally:
        os.unlink(path)


def impl_apply_twice(content1, content2, cons):
    """ ONE constraint object applied to a path, then again after the path was rewritten """
    core.import_searchkit()
    c = make_constraint(cons)
    with tempfile.NamedTemporaryFile(prefix='vh-', delete=False) as f:
        path = f.name
    out = []
    try:
        for content in (content1, content2):
            with open(path, 'wb') as f:
                f.write(content)
            with open(path, 'rb') as fd:
                try:
                    ret = c.apply_to_file(fd)
                    out.append({'pos': fd.tell(), 'ret': ret})
                except Exception as ex:  # pylint: disable=broad-except
                    out.append({'err': classify(ex)})
        return out
    finally:
        os.unlink(path)


# --------------------------------------------------------------------------
# generators
# --------------------------------------------------------------------------

def gen_since(rng, times, kind, where=None):
    """ a constraint whose since date is before / between / equal to / after the times """
    if times:
        lo, hi = min(times), max(times)
    else:
        lo = hi = gen.BASE
    r = rng.random()
    if where == 'before':
        r = 0.0
    if r < 0.15:
        since = lo - timedelta(seconds=rng.choice([1, 60, 86400 * 3]))
    elif r < 0.3:
        since = hi + timedelta(seconds=rng.choice([1, 60, 86400 * 3]))
    elif r < 0.65 and times:
        since = rng.choice(times)
    elif r < 0.8 and times:
        since = rng.choice(times) + timedelta(seconds=rng.choice([-1, 1]))
    else:
        span = int((hi - lo).total_seconds())
        since = lo + timedelta(seconds=rng.randrange(0, span + 1))
    # express it as current_date - window
    if rng.random() < 0.5:
        days = rng.choice([1, 2, 7, 30])
        cur = since + timedelta(days=days)
        cons = {'current': cur.strftime('%Y-%m-%d %H:%M:%S'), 'days': days}
        if rng.random() < 0.3:
            cons['hours'] = rng.choice([0, 5, 24])
    else:
        hours = rng.choice([0, 1, 12, 24, 100])       # hours=0: the window is empty, since = now
        cur = since + timedelta(hours=hours)
        cons = {'current': cur.strftime('%Y-%m-%d %H:%M:%S'), 'hours': hours}
        if hours == 0 and rng.random() < 0.5:
            cons['days'] = 0
        if hours == 24 and rng.random() < 0.5:
            del cons['hours']
    cons['matcher'] = kind
    return cons


def gen_log(rng, nlines, kind='std', ordered=True, undated=0.2, max_run=40,
            longs=0.25, malformed=0.0, lookalike=0.0, len_set=None, embedded=0.15):
    """
    -> (content bytes, list of datetimes used). Lines: '<timestamp> words…' or undated
    words; lengths drawn around the 64/256-byte boundaries.
    """
    from vh import matchers
    len_set = len_set or gen.LEN_SET
    times = gen.gen_times(rng, nlines, ordered=ordered)
    lines, used = [], []
    run = 0
    for t in times:
        r = rng.random()
        body = gen.words_line(rng)
        if r < undated and run < max_run:
            run += 1
            if rng.random() < 0.1:
                # long run of undated lines
                for _ in range(rng.randrange(0, max(1, max_run - run))):
                    lines.append(gen.words_line(rng))
                    run += 1
            ln = body
            if lookalike and rng.random() < lookalike:
                ln = rng.choice([b'2023-02-30 00:00:00 x', b'0000-00-00 00:00:00',
                                 b'2023-13-01 25:61:61 y', b'2023-01-01 1', b'2023-01-01',
                                 b'9999-99-99 99:99:99']) + b' ' + body
                if rng.random() < 0.4:
                    # this very moment with seconds / minutes just out of range
                    ln = matchers.near_miss(kind, t, rng).encode() + b' ' + body
        else:
            run = 0
            ln = matchers.fmt_ts(kind, t, rng).encode() + (b' ' + body if body else b'')
            used.append(t)
        if embedded and rng.random() < embedded:
            # a timestamp that is NOT at the start of a line (any time, any position)
            t2 = t + timedelta(seconds=rng.choice([-86400 * 30, -3600, -1, 0, 1, 3600,
                                                   86400 * 30]))
            emb = matchers.fmt_ts(kind, t2, rng).encode()
            if rng.random() < 0.5:
                ln = rng.choice([b'x', b' ', b'ab ', b'#', b'x' * 254, b'y' * 255]) + emb + \
                    b' ' + ln
            else:
                ln = ln + rng.choice([b' ', b' at ', b'x' * 200]) + emb
            if ln[:1] in b'0123456789[' and len(used) and lines and \
                    matchers.oracle_ts(kind, ln[:64]) is not None and run > 0:
                run = 0
        if rng.random() < longs:
            ln = gen.pad_to(rng, ln, rng.choice(len_set))
        if malformed and rng.random() < malformed:
            pos = rng.randrange(len(ln) + 1)
            ln = ln[:pos] + rng.choice(gen.MALFORMED) + ln[pos:]
        lines.append(ln)
    content = gen.assemble(rng, lines)
    if lines and rng.random() < 0.1:
        content = b'\n' * rng.choice([1, 2]) + content
    if lines and rng.random() < 0.1:
        content += b'\n' * rng.choice([1, 2])
    return content, used
