"""
The translator tie (second tie between /repo and the Lean side, beside the correspondence
check): on every run the functions listed in `pytolean.FUNCS` are translated from the CURRENT
source of searchkit into Lean.

* translation == `lean/SkModel/Gen/Generated.lean` (the translation of the pinned tree, built
  by `lake build`)  ->  the bridge theorems of `SkModel/Gen/Bridge.lean` (named in
  obligations.json, audited like every other theorem) are about the code as it is now.
* translation differs  ->  the new text and the bridge proofs are checked together in a scratch
  file (`lake env lean`, a few seconds, cached per text).  A bridge theorem that still checks:
  the rewritten function is PROVED equal to the model function.  One that does not (or a
  function that left the translatable fragment): the tie for that function falls back to the
  correspondence check alone, which is recorded in the evidence (`translator_bridge`) - and,
  for the two chunked scans, a small-scope search (all files up to 8 bytes, small values of
  the two constants, every offset) is run IN LEAN between the translated function and the
  model; every disagreement is replayed on the real class with its constants set to those
  values and judged against the property's own statement (the line containing the byte).
  A disagreement the real code confirms is a correspondence break (or a failing input when
  the real code contradicts the statement), reported through the usual verdict protocol.
"""
import hashlib
import json
import os
import re
import subprocess
import tempfile

from vh import core, pytolean

GEN_DIR = os.path.join(core.LEAN_DIR, 'SkModel', 'Gen')
PROP_FUNCS = {
    'C11': ['find_token', 'find_token_reverse', 'try_find_line', 'try_find_line_with_date', 'getitem'],
    'C04': ['find_token', 'find_token_reverse', 'try_find_line', 'try_find_line_with_date', 'getitem'],
    'C13': ['find_token', 'find_token_reverse', 'try_find_line', 'try_find_line_with_date', 'getitem'],
    'C16': ['since_window', 'line_date_is_valid', 'apply_to_line'],
    'C18': ['num_parallel_tasks'],
    'C15': ['allocations', 'allocate_next', 'add_to_store', 'preallocate'],
    'C06': ['preallocate'],
    'C07': ['apply_single'],
    'C09': ['logrotate_log_sort'],
}
ALL_FUNCS = [s['name'] for s in pytolean.FUNCS]


def _strip_imports(text):
    return '\n'.join(ln for ln in text.splitlines() if not ln.startswith('import ')) + '\n'


def _lean(src, timeout=600):
    d = os.path.join(core.LEAN_DIR, '.lake')
    os.makedirs(d, exist_ok=True)
    with tempfile.NamedTemporaryFile('w', suffix='.lean', prefix='Bridge_', dir=d,
                                     delete=False) as f:
        f.write(src)
        path = f.name
    try:
        p = subprocess.run(['lake', 'env', 'lean', path], cwd=core.LEAN_DIR, text=True,
                           stdout=subprocess.PIPE, stderr=subprocess.STDOUT, check=False,
                           timeout=timeout)
        return p.stdout
    except subprocess.TimeoutExpired:
        return 'error: timeout'
    finally:
        os.unlink(path)


def _recheck(text):
    """ bridge proofs against a translation that differs from the built one
    -> {func: 'proved' | 'proof-broken'} """
    with open(os.path.join(GEN_DIR, 'Bridge.lean')) as f:
        bridge = f.read()
    with open(os.path.join(GEN_DIR, 'BridgeStore.lean')) as f:
        bridge += f.read()
    src = ("import SkModel.Gen.PyPrim\nimport SkModel.Runner\nimport SkModel.Since\n"
           "import SkModel.Theorems.C16\nimport SkModel.Proofs.SeekShape\n"
           "import SkModel.Store\nimport SkModel.Proofs.StoreInv\nimport SkModel.NameRx\n"
           + _strip_imports(text) + _strip_imports(bridge)
           + ''.join(f"#print axioms Sk.Gen.bridge_{n}\n" for n in ALL_FUNCS))
    out = _lean(src)
    res = {}
    for n in ALL_FUNCS:
        m = re.search(rf"'Sk\.Gen\.bridge_{n}' depends on axioms: \[([^\]]*)\]", out)
        m0 = re.search(rf"'Sk\.Gen\.bridge_{n}' does not depend on any axioms", out)
        if m0:
            res[n] = 'proved'
        elif m:
            ax = {a.strip() for a in m.group(1).replace('\n', ' ').split(',') if a.strip()}
            res[n] = 'proved' if ax <= core.ALLOWED_AXIOMS else 'proof-broken'
        else:
            res[n] = 'proof-broken'
    return res


SEARCH = """
open Sk Sk.Gen Sk.Py
def mkF (bits len : Nat) : FileV := ⟨len, fun i => bits.testBit i⟩
def errName' : SeekErr → String
  | .maxLineLen => "MaxSearchableLineLengthReached"
  | .assertFailed => "AssertionError"
  | .tooManyUndated => "TooManyLinesWithoutDate"
  | .noTimestamps => "NoTimestampsFoundInFile"
  | .noValidLines => "NoValidLinesFoundInFile"
def ofSeek' {α : Type} : Except SeekErr α → Py.Res α
  | .ok t => .ret t
  | .error e => .exc (errName' e)
def showT : Tok → String
  | .found o => s!"FOUND:{o}"
  | .edge o => s!"REACHED_EOF:{o}"
class ShowV (α : Type) where sh : α → String
instance : ShowV Tok := ⟨showT⟩
instance : ShowV LLine := ⟨fun l => s!"LINE/{showT l.slf}/{showT l.elf}"⟩
def showR {α : Type} [ShowV α] : Py.Res α → String
  | .ret v => ShowV.sh v
  | .exc n => s!"EXC:{n}"
  | .diverge => "DIVERGE"
def optsL (len : Nat) : List (Option Int) := [none, some (-1), some 0, some 1, some len]
def showO : Option Int → String
  | none => "N"
  | some v => s!"{v}"
def bridgeSearch : IO Unit := do
  let mut n := 0
  for len in [0:9] do
    for bits in [0:2^len] do
      let F := mkF bits len
      for H in [1:5] do
        for E in [1:4] do
          let K : SeekK := ⟨H, E, 3⟩
          for s in [0:len+1] do
            %s
  IO.println "done"
#eval bridgeSearch
"""
CMP_TFL = """for a in optsL len do
              for b in optsL len do
                if n < 40 && try_find_line K F s a b 77 (E+2) != ofSeek' (tryFindLine K F s a b) then
                  IO.println s!"DIS try_find_line {len} {bits} {H} {E} {s} {showR (try_find_line K F s a b 77 (E+2))} {showR (ofSeek' (tryFindLine K F s a b))} {showO a} {showO b}"
                  n := n + 1"""
CMP = """if n < 40 && %s K F s 77 (E+2) != ofSeek' (%s K F s) then
              IO.println s!"DIS {"%s"} {len} {bits} {H} {E} {s} {showR (%s K F s 77 (E+2))} {showR (ofSeek' (%s K F s))}"
              n := n + 1"""


SEARCH_D = """
def mkD (code len : Nat) : FileV × (Nat → Option Int) :=
  -- letters: 0 = line feed, 1 = 'x', 2..4 = 'A'..'C' (a byte at which a timestamp 0..2 is read)
  let dig : Nat → Nat := fun i => (code / 5 ^ i) % 5
  (⟨len, fun i => dig i == 0⟩,
   fun i => if i < len && dig i ≥ 2 then some ((dig i : Int) - 2) else none)
instance : ShowV (Option LLine) := ⟨fun o => match o with | none => "NONE" | some l => ShowV.sh l⟩
instance : ShowV (Option Int × Bool × Option LLine) :=
  ⟨fun r => s!"DATE:{showO r.1}/FA:{r.2.1}/LI:{ShowV.sh r.2.2}"⟩
def bridgeSearchD : IO Unit := do
  let mut n := 0
  for len in [0:7] do
    for code in [0:5^len] do
      let (F, ts) := mkD code len
      for H in [1:3] do
        for E in [1:3] do
          for A in [1:4] do
            let K : SeekK := ⟨H, E, A⟩
            for s in [0:len+1] do
              @@CMPS@@
  IO.println "done"
#eval bridgeSearchD
"""
CMP_TWD = """for a in optsL len do
                for fw in [true, false] do
                  if n < 40 && try_find_line_with_date K F ts s a fw 77 (E+A+2) != ofSeek' (tryFindLineWithDate K F ts s a fw) then
                    IO.println s!"DIS try_find_line_with_date {len} {code} {H} {E} {s} {showR (try_find_line_with_date K F ts s a fw 77 (E+A+2))} {showR (ofSeek' (tryFindLineWithDate K F ts s a fw))} {A} {showO a} {fw}"
                    n := n + 1"""
CMP_GI = """if s < len then
                for since in [0, 1, 2] do
                  let want : Py.Res (Option Int × Bool × Option LLine) := match getItem K F ts s with
                    | .error e => .exc (errName' e)
                    | .ok l => .ret (l.date ts, true, if (l.date ts).getD 0 ≥ since then some l else none)
                  if n < 40 && getitem K F ts since s false none 77 (E+A+2) != want then
                    IO.println s!"DIS getitem {len} {code} {H} {E} {s} {showR (getitem K F ts since s false none 77 (E+A+2))} {showR want} {A} {since}"
                    n := n + 1"""


def _small_scope_dated(text, funcs):
    """ the walk over undated lines and __getitem__: files over {LF, x, A, B, C} of up to 6 bytes
    (a timestamp 0..2 is read at A..C), H, EXP in 1..2, ATT in 1..3, every offset """
    cmps = []
    if 'try_find_line_with_date' in funcs:
        cmps.append(CMP_TWD)
    if 'getitem' in funcs:
        cmps.append(CMP_GI)
    if not cmps:
        return [], True
    head = SEARCH.split('def bridgeSearch')[0]
    src = ("import SkModel.Gen.PyPrim\n" + _strip_imports(text) + head
           + SEARCH_D.replace('@@CMPS@@', '\n              '.join(cmps)))
    out = _lean(src)
    dis = []
    for ln in out.splitlines():
        if ln.startswith('DIS '):
            w = ln.split()
            d = {'func': w[1], 'len': int(w[2]), 'code': int(w[3]), 'H': int(w[4]),
                 'EXP': int(w[5]), 'start': int(w[6]), 'translated': w[7], 'model': w[8],
                 'ATT': int(w[9])}
            if w[1] == 'getitem':
                d['since'] = int(w[10])
            else:
                d['lfo'] = None if w[10] == 'N' else int(w[10])
                d['fwd'] = w[11] == 'true'
            dis.append(d)
    return dis, 'done' in out and 'error' not in out


def _small_scope(text, funcs):
    """ translated function vs model on every small instance -> list of disagreements """
    cmps = []
    if 'find_token' in funcs:
        cmps.append(CMP % ('find_token', 'findToken', 'find_token', 'find_token', 'findToken'))
    if 'find_token_reverse' in funcs:
        cmps.append(CMP % ('find_token_reverse', 'findTokenReverse', 'find_token_reverse', 'find_token_reverse', 'findTokenReverse'))
    if 'try_find_line' in funcs:
        cmps.append(CMP_TFL)
    if not cmps:
        return [], True
    src = ("import SkModel.Gen.PyPrim\n" + _strip_imports(text)
           + SEARCH % '\n            '.join(cmps))
    out = _lean(src)
    dis = []
    for ln in out.splitlines():
        if ln.startswith('DIS '):
            _, fn, ln_, bits, h, e, s, g, m = ln.split()[:9]
            dis.append({'func': fn, 'len': int(ln_), 'bits': int(bits), 'H': int(h),
                        'EXP': int(e), 'start': int(s), 'translated': g, 'model': m,
                        'lfs': [None if x == 'N' else int(x) for x in ln.split()[9:]]})
    return dis, 'done' in out and 'error' not in out


def content_of(d):
    if 'code' in d:
        return bytes(b'\nxABC'[(d['code'] // 5 ** i) % 5] for i in range(d['len']))
    return bytes(10 if (d['bits'] >> i) & 1 else 120 for i in range(d['len']))


def replay_on_impl(d):
    """ one small-scope disagreement on the REAL class with its two constants set to the small
    values: every offset of that file is looked up and judged against the property's statement
    (lines within the limit (EXP-1)*H must be found exactly).
    -> ('failing-input' | 'confirmed' | 'not-confirmed', text) """
    core.import_searchkit()
    import io
    from searchkit import constraints as C
    from vh import seekcheck as K
    S = C.LogFileDateSinceSeeker
    content = content_of(d)
    old = (S.SEEK_HORIZON, S.MAX_SEEK_HORIZON_EXPAND)
    S.SEEK_HORIZON, S.MAX_SEEK_HORIZON_EXPAND = d['H'], d['EXP']
    try:
        cons = K.make_constraint({'current': '2022-01-01 00:00:00', 'matcher': 'std'})
        fd = io.BytesIO(content)
        seeker = S.__new__(S)
        try:
            seeker = S(fd, cons)
        except Exception:  # pylint: disable=broad-except
            pass
        # the scan itself, against what the model says
        fn = getattr(seeker, d['func'])

        def show(st):
            return f"{st.status.name}:{st.offset}"
        try:
            st = fn(d['start'], *d.get('lfs', []))
            got = show(st) if d['func'] != 'try_find_line' else \
                f"LINE/{show(st._line_start_lf)}/{show(st._line_end_lf)}"
        except Exception as ex:  # pylint: disable=broad-except
            got = 'EXC:' + type(ex).__name__
        limit = (d['EXP'] - 1) * d['H']
        for o in range(len(content) + 1):
            ls, le = K.py_line_start(content, o), K.py_line_end(content, o)
            try:
                l = seeker.try_find_line(o)
                s, e = l.start_offset, l.end_offset
                want_e = le - 1 if le < len(content) else len(content)
                if (s, e) != (ls, want_e):
                    return ('failing-input',
                            f"with SEEK_HORIZON={d['H']} MAX_SEEK_HORIZON_EXPAND={d['EXP']} "
                            f"try_find_line({o}) on {content!r} -> start={s} end={e}; the line "
                            f"containing byte {o} is [{ls},{le})")
            except Exception as ex:  # pylint: disable=broad-except
                name = K.classify(ex)
                if le - ls <= limit or name != 'maxLineLen':
                    return ('failing-input',
                            f"with SEEK_HORIZON={d['H']} MAX_SEEK_HORIZON_EXPAND={d['EXP']} "
                            f"try_find_line({o}) on {content!r} raised {name} for a line of "
                            f"{le - ls} bytes (limit {limit})")
        if got == d['model']:
            # the real function agrees with the model: the TRANSLATION is what differs
            return ('translator-mismatch', f"{d['func']}({d['start']}) on {content!r}: code and "
                                           f"model answer {got}, the translation {d['translated']}")
        return ('confirmed', f"{d['func']}({d['start']}) on {content!r} with SEEK_HORIZON={d['H']} "
                             f"MAX_SEEK_HORIZON_EXPAND={d['EXP']}: the code answers {got}, the "
                             f"model {d['model']}")
    finally:
        S.SEEK_HORIZON, S.MAX_SEEK_HORIZON_EXPAND = old


def replay_dated(d):
    """ a disagreement of the dated small-scope search on the REAL seeker: constants set to the
    small values, a constraint whose timestamp extraction reads the letters A..C (0..2 days
    after the epoch).  Judged against C04's own statement when its hypotheses hold for that
    file (dated lines in order, undated runs + 1 <= ATT, lines within (EXP-1)*H): the file must
    be left at the first line at or after the since date. """
    core.import_searchkit()
    import io
    from datetime import datetime, timedelta
    from searchkit import constraints as C
    from vh import matchers
    S = C.LogFileDateSinceSeeker
    epoch = datetime(2000, 1, 1)
    content = content_of(d)

    class Stub(C.SearchConstraintSearchSince):
        def extracted_datetime(self, line):
            if isinstance(line, str):
                line = line.encode()
            if line[:1] in (b'A', b'B', b'C'):
                return epoch + timedelta(days=line[0] - 65)
            return None

    def mk(since):
        return Stub(current_date=(epoch + timedelta(days=since)).strftime('%Y-%m-%d %H:%M:%S'),
                    ts_matcher_cls=matchers.MATCHERS['std'], days=0, hours=0)
    old = (S.SEEK_HORIZON, S.MAX_SEEK_HORIZON_EXPAND, S.MAX_TRY_FIND_WITH_DATE_ATTEMPTS)
    S.SEEK_HORIZON, S.MAX_SEEK_HORIZON_EXPAND = d['H'], d['EXP']
    S.MAX_TRY_FIND_WITH_DATE_ATTEMPTS = d['ATT']

    def show_tok(st):
        return f"{st.status.name}:{st.offset}"

    def show_line(l):
        return 'NONE' if l is None else \
            f"LINE/{show_tok(l._line_start_lf)}/{show_tok(l._line_end_lf)}"
    try:
        since = d.get('since', 0)
        seeker = S(io.BytesIO(content), mk(since))
        try:
            if d['func'] == 'getitem':
                dt = seeker[d['start']]
                got = (f"DATE:{(dt - epoch).days}/FA:{str(bool(seeker.found_any_date)).lower()}"
                       f"/LI:{show_line(seeker.line_info)}")
            else:
                got = show_line(seeker.try_find_line_with_date(d['start'], d['lfo'], d['fwd']))
        except Exception as ex:  # pylint: disable=broad-except
            got = 'EXC:' + type(ex).__name__
        # C04's statement on this file, for every since date
        lines, pos = [], 0
        for ln in content.split(b'\n'):
            lines.append((pos, ln))
            pos += len(ln) + 1
        if content.endswith(b'\n'):
            lines.pop()
        dated = [(p, ln[0] - 65) for p, ln in lines if ln[:1] in (b'A', b'B', b'C')]
        runs, cur = [], 0
        for p, ln in lines:
            if ln[:1] in (b'A', b'B', b'C'):
                runs.append(cur)
                cur = 0
            else:
                cur += 1
        runs.append(cur)
        hyp = (all(len(ln) <= (d['EXP'] - 1) * d['H'] for _, ln in lines) and
               all(a[1] <= b[1] for a, b in zip(dated, dated[1:])) and
               all(r + 1 <= d['ATT'] for r in runs))
        if hyp:
            for sn in (0, 1, 2):
                want = 0 if not dated else next((p for p, t in dated if t >= sn), len(content))
                fd = io.BytesIO(content)
                fd.name = 'small'
                try:
                    mk(sn).apply_to_file(fd)
                    where = fd.tell()
                except Exception as ex:  # pylint: disable=broad-except
                    where = 'raised ' + type(ex).__name__
                if where != want:
                    return ('failing-input',
                            f"with SEEK_HORIZON={d['H']} MAX_SEEK_HORIZON_EXPAND={d['EXP']} "
                            f"MAX_TRY_FIND_WITH_DATE_ATTEMPTS={d['ATT']} and timestamps 0..2 read at "
                            f"the letters A..C, a since constraint at {sn} leaves {content!r} at "
                            f"{where}; the first line at or after the since date starts at {want}")
        if got == d['model']:
            return ('translator-mismatch', f"{d['func']} at {d['start']} on {content!r}: code and "
                                           f"model answer {got}, the translation {d['translated']}")
        return ('confirmed', f"{d['func']} at {d['start']} on {content!r} (timestamps 0..2 at the "
                             f"letters A..C; SEEK_HORIZON={d['H']} EXPAND={d['EXP']} "
                             f"ATTEMPTS={d['ATT']}): the code answers {got}, the model {d['model']}")
    finally:
        (S.SEEK_HORIZON, S.MAX_SEEK_HORIZON_EXPAND, S.MAX_TRY_FIND_WITH_DATE_ATTEMPTS) = old


def _replay_shard(_rng, _count, extra):
    return [replay_dated(d) if 'code' in d else replay_on_impl(d) for d in extra['dis']]


def check(rep, prop):
    """ called by the checks of PROP_FUNCS' properties after the audit.  Fills
    rep.extra['translator_bridge']; adds failures only for concrete disagreements that the real
    code confirms. """
    funcs = PROP_FUNCS.get(prop, [])
    info = {'functions': funcs, 'translated_from': core.REPO}
    rep.extra['translator_bridge'] = info
    try:
        text, errors = pytolean.translate(core.REPO)
    except Exception as e:  # pylint: disable=broad-except
        info['status'] = {f: f'untranslatable: translator failed ({type(e).__name__}: {e})'
                          for f in funcs}
        return
    with open(os.path.join(GEN_DIR, 'Generated.lean')) as f:
        built = f.read()
    info['same_as_built'] = (text == built)
    if text == built:
        info['status'] = {f: 'proved (bridge theorem of the built library, see theorems)'
                          for f in funcs}
        return
    h = hashlib.sha256((text + open(os.path.join(GEN_DIR, 'Bridge.lean')).read()
                        + open(os.path.join(GEN_DIR, 'BridgeStore.lean')).read()).encode()
                       ).hexdigest()[:16]
    cache = os.path.join(core.LEAN_DIR, '.lake', f'bridge_{h}.json')
    res = None
    if os.path.exists(cache):
        try:
            with open(cache) as f:
                res = json.load(f)
        except ValueError:
            res = None
    if res is None:
        st = _recheck(text)
        for n, e in errors.items():
            st[n] = 'untranslatable: ' + e
        # a caller of a function whose own bridge is gone cannot keep its bridge either
        deps = {sp['name']: list(sp.get('callees', {}).values()) for sp in pytolean.FUNCS}
        changed = True
        while changed:
            changed = False
            for n, ds in deps.items():
                bad = [d for d in ds if st.get(d, 'proved') != 'proved']
                if bad and st.get(n) in ('proved', 'proof-broken'):
                    st[n] = f'not available: depends on {bad[0]} ({st[bad[0]].split(":")[0]})'
                    changed = True
        def compiles(n):
            return n not in errors and all(compiles(d) for d in deps.get(n, []))

        def searchable(n):
            return st.get(n) != 'proved' and compiles(n)
        broken = [n for n in ('find_token', 'find_token_reverse', 'try_find_line')
                  if searchable(n)]
        dis, complete = _small_scope(text, broken) if broken else ([], True)
        broken_d = [n for n in ('try_find_line_with_date', 'getitem') if searchable(n)]
        if broken_d:
            dis2, complete2 = _small_scope_dated(text, broken_d)
            dis, complete = dis + dis2, complete and complete2
        res = {'status': st, 'disagreements': dis, 'search_complete': complete}
        tmp = cache + f'.{os.getpid()}'
        with open(tmp, 'w') as f:
            json.dump(res, f)
        os.replace(tmp, cache)
    info['status'] = {f: res['status'].get(f, 'proof-broken') for f in funcs}
    mine = [d for d in res['disagreements'] if d['func'] in funcs]
    info['small_scope_disagreements'] = len(mine)
    info['small_scope_search_complete'] = res['search_complete']
    if not mine:
        return
    # replay in a forked shard (the parent must stay free of searchkit).  These disagreements live
    # at OTHER VALUES of the library's constants than the live ones (SEEK_HORIZON 1..4 instead of
    # 256, ...): the properties speak about the library as configured, and a rewrite may
    # legitimately specialise to the configured values - so they are recorded, with what the
    # real code does there, and are NOT a verdict.  The correspondence check of this run decides
    # at the live constants.
    outs = core.run_sharded(_replay_shard, 1, 1, {'dis': mine[:12]}, shards=1, workers=2)
    info['replayed_on_code'] = [k for k, _ in outs]
    info['small_scope_examples'] = [w for _, w in outs[:3]]
    rep.count('bridge_small_scope_disagreements_at_other_constants', len(mine))
