"""
The translator tie (second tie between /repo and the Lean side, beside the correspondence
check): on every run the functions listed in `pytolean.FUNCS` are translated from the CURRENT
source of searchkit into Lean.

* translation == `lean/SkModel/Gen/Generated.lean` (the translation of the pinned tree, built
  by `lake build`)  ->  the bridge theorems of `SkModel/Gen/Bridge.lean` (named in
  obligations.json, audited like every other theorem) are about the code as it is now.
* translation differs  ->  the new text and the bridge proofs are checked together in a scratch
  file (`lake env lean`, a few seconds, cached per text).  A bridge theorem that still checks:
  the rewritten function is PROVED equal to the model function.  One that does not (or a
  function that left the translatable fragment): the tie for that function falls back to the
  correspondence check alone, which is recorded in the evidence (`translator_bridge`) - and,
  for the two chunked scans, a small-scope search (all files up to 8 bytes, small values of
  the two constants, every offset) is run IN LEAN between the translated function and the
  model; every disagreement is replayed on the real class with its constants set to those
  values and judged against the property's own statement (the line containing the byte).
  A disagreement the real code confirms is a correspondence break (or a failing input when
  the real code contradicts the statement), reported through the usual verdict protocol.
"""
import hashlib
import json
import os
import re
import subprocess
import tempfile

from vh import core, pytolean

GEN_DIR = os.path.join(core.LEAN_DIR, 'SkModel', 'Gen')
PROP_FUNCS = {
    'C11': ['find_token', 'find_token_reverse', 'try_find_line', 'try_find_line_with_date', 'getitem'],
    'C04': ['find_token', 'find_token_reverse', 'try_find_line', 'try_find_line_with_date', 'getitem'],
    'C13': ['find_token', 'find_token_reverse', 'try_find_line', 'try_find_line_with_date', 'getitem'],
    'C16': ['since_window', 'line_date_is_valid', 'apply_to_line'],
    'C18': ['num_parallel_tasks'],
}
ALL_FUNCS = [s['name'] for s in pytolean.FUNCS]


def _strip_imports(text):
    return '\n'.join(ln for ln in text.splitlines() if not ln.startswith('import ')) + '\n'


def _lean(src, timeout=600):
    d = os.path.join(core.LEAN_DIR, '.lake')
    os.makedirs(d, exist_ok=True)
    with tempfile.NamedTemporaryFile('w', suffix='.lean', prefix='Bridge_', dir=d,
                                     delete=False) as f:
        f.write(src)
        path = f.name
    try:
        p = subprocess.run(['lake', 'env', 'lean', path], cwd=core.LEAN_DIR, text=True,
                           stdout=subprocess.PIPE, stderr=subprocess.STDOUT, check=False,
                           timeout=timeout)
        return p.stdout
    except subprocess.TimeoutExpired:
        return 'error: timeout'
    finally:
        os.unlink(path)


def _recheck(text):
    """ bridge proofs against a translation that differs from the built one
    -> {func: 'proved' | 'proof-broken'} """
    with open(os.path.join(GEN_DIR, 'Bridge.lean')) as f:
        bridge = f.read()
    src = ("import SkModel.Gen.PyPrim\nimport SkModel.Runner\nimport SkModel.Since\n"
           "import SkModel.Theorems.C16\nimport SkModel.Proofs.SeekShape\n"
           + _strip_imports(text) + _strip_imports(bridge)
           + ''.join(f"#print axioms Sk.Gen.bridge_{n}\n" for n in ALL_FUNCS))
    out = _lean(src)
    res = {}
    for n in ALL_FUNCS:
        m = re.search(rf"'Sk\.Gen\.bridge_{n}' depends on axioms: \[([^\]]*)\]", out)
        m0 = re.search(rf"'Sk\.Gen\.bridge_{n}' does not depend on any axioms", out)
        if m0:
            res[n] = 'proved'
        elif m:
            ax = {a.strip() for a in m.group(1).replace('\n', ' ').split(',') if a.strip()}
            res[n] = 'proved' if ax <= core.ALLOWED_AXIOMS else 'proof-broken'
        else:
            res[n] = 'proof-broken'
    return res


SEARCH = """
open Sk Sk.Gen Sk.Py
def mkF (bits len : Nat) : FileV := ⟨len, fun i => bits.testBit i⟩
def errName' : SeekErr → String
  | .maxLineLen => "MaxSearchableLineLengthReached"
  | .assertFailed => "AssertionError"
  | .tooManyUndated => "TooManyLinesWithoutDate"
  | .noTimestamps => "NoTimestampsFoundInFile"
  | .noValidLines => "NoValidLinesFoundInFile"
def ofSeek' {α : Type} : Except SeekErr α → Py.Res α
  | .ok t => .ret t
  | .error e => .exc (errName' e)
def showT : Tok → String
  | .found o => s!"FOUND:{o}"
  | .edge o => s!"REACHED_EOF:{o}"
class ShowV (α : Type) where sh : α → String
instance : ShowV Tok := ⟨showT⟩
instance : ShowV LLine := ⟨fun l => s!"LINE/{showT l.slf}/{showT l.elf}"⟩
def showR {α : Type} [ShowV α] : Py.Res α → String
  | .ret v => ShowV.sh v
  | .exc n => s!"EXC:{n}"
  | .diverge => "DIVERGE"
def optsL (len : Nat) : List (Option Int) := [none, some (-1), some 0, some 1, some len]
def showO : Option Int → String
  | none => "N"
  | some v => s!"{v}"
def bridgeSearch : IO Unit := do
  let mut n := 0
  for len in [0:9] do
    for bits in [0:2^len] do
      let F := mkF bits len
      for H in [1:5] do
        for E in [1:4] do
          let K : SeekK := ⟨H, E, 3⟩
          for s in [0:len+1] do
            %s
  IO.println "done"
#eval bridgeSearch
"""
CMP_TFL = """for a in optsL len do
              for b in optsL len do
                if n < 40 && try_find_line K F s a b 77 (E+2) != ofSeek' (tryFindLine K F s a b) then
                  IO.println s!"DIS try_find_line {len} {bits} {H} {E} {s} {showR (try_find_line K F s a b 77 (E+2))} {showR (ofSeek' (tryFindLine K F s a b))} {showO a} {showO b}"
                  n := n + 1"""
CMP = """if n < 40 && %s K F s 77 (E+2) != ofSeek' (%s K F s) then
              IO.println s!"DIS {"%s"} {len} {bits} {H} {E} {s} {showR (%s K F s 77 (E+2))} {showR (ofSeek' (%s K F s))}"
              n := n + 1"""


def _small_scope(text, funcs):
    """ translated function vs model on every small instance -> list of disagreements """
    cmps = []
    if 'find_token' in funcs:
        cmps.append(CMP % ('find_token', 'findToken', 'find_token', 'find_token', 'findToken'))
    if 'find_token_reverse' in funcs:
        cmps.append(CMP % ('find_token_reverse', 'findTokenReverse', 'find_token_reverse', 'find_token_reverse', 'findTokenReverse'))
    if 'try_find_line' in funcs:
        cmps.append(CMP_TFL)
    if not cmps:
        return [], True
    src = ("import SkModel.Gen.PyPrim\n" + _strip_imports(text)
           + SEARCH % '\n            '.join(cmps))
    out = _lean(src)
    dis = []
    for ln in out.splitlines():
        if ln.startswith('DIS '):
            _, fn, ln_, bits, h, e, s, g, m = ln.split()[:9]
            dis.append({'func': fn, 'len': int(ln_), 'bits': int(bits), 'H': int(h),
                        'EXP': int(e), 'start': int(s), 'translated': g, 'model': m,
                        'lfs': [None if x == 'N' else int(x) for x in ln.split()[9:]]})
    return dis, 'done' in out and 'error' not in out


def content_of(d):
    return bytes(10 if (d['bits'] >> i) & 1 else 120 for i in range(d['len']))


def replay_on_impl(d):
    """ one small-scope disagreement on the REAL class with its two constants set to the small
    values: every offset of that file is looked up and judged against the property's statement
    (lines within the limit (EXP-1)*H must be found exactly).
    -> ('failing-input' | 'confirmed' | 'not-confirmed', text) """
    core.import_searchkit()
    import io
    from searchkit import constraints as C
    from vh import seekcheck as K
    S = C.LogFileDateSinceSeeker
    content = content_of(d)
    old = (S.SEEK_HORIZON, S.MAX_SEEK_HORIZON_EXPAND)
    S.SEEK_HORIZON, S.MAX_SEEK_HORIZON_EXPAND = d['H'], d['EXP']
    try:
        cons = K.make_constraint({'current': '2022-01-01 00:00:00', 'matcher': 'std'})
        fd = io.BytesIO(content)
        seeker = S.__new__(S)
        try:
            seeker = S(fd, cons)
        except Exception:  # pylint: disable=broad-except
            pass
        # the scan itself, against what the model says
        fn = getattr(seeker, d['func'])

        def show(st):
            return f"{st.status.name}:{st.offset}"
        try:
            st = fn(d['start'], *d.get('lfs', []))
            got = show(st) if d['func'] != 'try_find_line' else \
                f"LINE/{show(st._line_start_lf)}/{show(st._line_end_lf)}"
        except Exception as ex:  # pylint: disable=broad-except
            got = 'EXC:' + type(ex).__name__
        limit = (d['EXP'] - 1) * d['H']
        for o in range(len(content) + 1):
            ls, le = K.py_line_start(content, o), K.py_line_end(content, o)
            try:
                l = seeker.try_find_line(o)
                s, e = l.start_offset, l.end_offset
                want_e = le - 1 if le < len(content) else len(content)
                if (s, e) != (ls, want_e):
                    return ('failing-input',
                            f"with SEEK_HORIZON={d['H']} MAX_SEEK_HORIZON_EXPAND={d['EXP']} "
                            f"try_find_line({o}) on {content!r} -> start={s} end={e}; the line "
                            f"containing byte {o} is [{ls},{le})")
            except Exception as ex:  # pylint: disable=broad-except
                name = K.classify(ex)
                if le - ls <= limit or name != 'maxLineLen':
                    return ('failing-input',
                            f"with SEEK_HORIZON={d['H']} MAX_SEEK_HORIZON_EXPAND={d['EXP']} "
                            f"try_find_line({o}) on {content!r} raised {name} for a line of "
                            f"{le - ls} bytes (limit {limit})")
        if got == d['model']:
            # the real function agrees with the model: the TRANSLATION is what differs
            return ('translator-mismatch', f"{d['func']}({d['start']}) on {content!r}: code and "
                                           f"model answer {got}, the translation {d['translated']}")
        return ('confirmed', f"{d['func']}({d['start']}) on {content!r} with SEEK_HORIZON={d['H']} "
                             f"MAX_SEEK_HORIZON_EXPAND={d['EXP']}: the code answers {got}, the "
                             f"model {d['model']}")
    finally:
        S.SEEK_HORIZON, S.MAX_SEEK_HORIZON_EXPAND = old


def _replay_shard(_rng, _count, extra):
    return [replay_on_impl(d) for d in extra['dis']]


def check(rep, prop):
    """ called by the checks of PROP_FUNCS' properties after the audit.  Fills
    rep.extra['translator_bridge']; adds failures only for concrete disagreements that the real
    code confirms. """
    funcs = PROP_FUNCS.get(prop, [])
    info = {'functions': funcs, 'translated_from': core.REPO}
    rep.extra['translator_bridge'] = info
    try:
        text, errors = pytolean.translate(core.REPO)
    except Exception as e:  # pylint: disable=broad-except
        info['status'] = {f: f'untranslatable: translator failed ({type(e).__name__}: {e})'
                          for f in funcs}
        return
    with open(os.path.join(GEN_DIR, 'Generated.lean')) as f:
        built = f.read()
    info['same_as_built'] = (text == built)
    if text == built:
        info['status'] = {f: 'proved (bridge theorem of the built library, see theorems)'
                          for f in funcs}
        return
    h = hashlib.sha256((text + open(os.path.join(GEN_DIR, 'Bridge.lean')).read()).encode()
                       ).hexdigest()[:16]
    cache = os.path.join(core.LEAN_DIR, '.lake', f'bridge_{h}.json')
    res = None
    if os.path.exists(cache):
        try:
            with open(cache) as f:
                res = json.load(f)
        except ValueError:
            res = None
    if res is None:
        st = _recheck(text)
        for n, e in errors.items():
            st[n] = 'untranslatable: ' + e
        # a caller of a function whose own bridge is gone cannot keep its bridge either
        deps = {sp['name']: list(sp.get('callees', {}).values()) for sp in pytolean.FUNCS}
        changed = True
        while changed:
            changed = False
            for n, ds in deps.items():
                bad = [d for d in ds if st.get(d, 'proved') != 'proved']
                if bad and st.get(n) in ('proved', 'proof-broken'):
                    st[n] = f'not available: depends on {bad[0]} ({st[bad[0]].split(":")[0]})'
                    changed = True
        broken = [n for n in ('find_token', 'find_token_reverse', 'try_find_line')
                  if st.get(n) == 'proof-broken']
        dis, complete = _small_scope(text, broken) if broken else ([], True)
        res = {'status': st, 'disagreements': dis, 'search_complete': complete}
        tmp = cache + f'.{os.getpid()}'
        with open(tmp, 'w') as f:
            json.dump(res, f)
        os.replace(tmp, cache)
    info['status'] = {f: res['status'].get(f, 'proof-broken') for f in funcs}
    mine = [d for d in res['disagreements'] if d['func'] in funcs]
    info['small_scope_disagreements'] = len(mine)
    info['small_scope_search_complete'] = res['search_complete']
    if not mine:
        return
    # replay in a forked shard (the parent must stay free of searchkit)
    outs = core.run_sharded(_replay_shard, 1, 1, {'dis': mine[:12]}, shards=1, workers=2)
    for d, (kind, what) in zip(mine, outs):
        case = {'bridge': d, 'content_hex': content_of(d).hex()}
        if kind == 'failing-input':
            rep.fail('failing-input', case, what)
            return
    info['replayed_on_code'] = [k for k, _ in outs]
    for d, (kind, what) in zip(mine, outs):
        if kind == 'confirmed':
            rep.fail('correspondence-broken', {'bridge': d, 'content_hex': content_of(d).hex()},
                     "the translation of the current source differs from the model: " + what)
            return
