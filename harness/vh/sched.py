"""
Controlled scheduler: drives the REAL `ResultStoreParallel` with several "worker"
threads of which exactly one runs at a time.  The manager objects are replaced by
instrumented stand-ins (`SValue`, `SDict`, `SLock`) whose every access is a scheduling
point and a trace event; the schedule (which runnable worker goes next) is chosen by a
policy object, so an interleaving replays exactly from its seed / choice list.
"""
import threading


class Deadlock(Exception):
    pass


class Scheduler:
    def __init__(self, chooser):
        self.chooser = chooser          # callable(runnable list, step index) -> worker id
        self.trace = []
        self.state = {}                 # wid -> 'ready' | 'blocked' | 'done'
        self.go = {}                    # wid -> threading.Event
        self.back = threading.Event()   # worker -> scheduler: "I stopped"
        self.lock_owner = None
        self.tl = threading.local()
        self.errors = []
        self.steps = 0
        self.choices = []               # (chosen, runnable) per step

    # -- worker side -----------------------------------------------------------
    def wid(self):
        return getattr(self.tl, 'wid', None)

    def log(self, *ev):
        self.trace.append(list(ev))

    def pause(self, state='ready'):
        """ hand control back to the scheduler and wait to be chosen again """
        w = self.wid()
        if w is None:
            return
        self.state[w] = state
        self.go[w].clear()
        self.back.set()
        self.go[w].wait()

    # -- scheduler side --------------------------------------------------------
    def run(self, bodies, max_steps=100000):
        threads = {}
        for w, body in enumerate(bodies):
            self.state[w] = 'ready'
            self.go[w] = threading.Event()

            def target(w=w, body=body):
                self.tl.wid = w
                self.go[w].wait()
                try:
                    body(w)
                except BaseException as e:  # pylint: disable=broad-except
                    self.errors.append((w, type(e).__name__, str(e)[:200]))
                    self.log('exc', w, type(e).__name__)
                    if self.lock_owner == w:
                        self.lock_owner = None
                self.state[w] = 'done'
                self.back.set()
            threads[w] = threading.Thread(target=target, daemon=True)
            threads[w].start()
        try:
            while True:
                runnable = [w for w, st in self.state.items()
                            if st == 'ready' or (st == 'blocked' and self.lock_owner is None)]
                if not runnable:
                    if all(st == 'done' for st in self.state.values()):
                        return
                    raise Deadlock([f"{w}:{st}" for w, st in self.state.items()])
                if self.steps >= max_steps:
                    raise Deadlock(['step limit'])
                w = self.chooser(runnable, self.steps)
                self.choices.append((w, list(runnable)))
                self.steps += 1
                self.back.clear()
                self.go[w].set()
                if not self.back.wait(timeout=30):
                    raise Deadlock([f"worker {w} did not come back"])
        finally:
            self.alive = [t for t in threads.values() if t.is_alive()]


class SLock:
    """ stand-in for the module level multiprocessing.Lock """
    def __init__(self, sched):
        self.s = sched

    def acquire(self, *a, **k):
        """ block=True, timeout=None like multiprocessing.Lock.acquire.  A timed or
        non-blocking acquire of a lock that is held MAY fail: the scheduler decides
        (deterministically from the step count), so that code relying on a timeout never
        expiring is exercised with the timeout expiring. """
        s = self.s
        w = s.wid()
        if w is None:
            return True
        block = k.get('block', a[0] if a else True)
        timeout = k.get('timeout', a[1] if len(a) > 1 else None)
        may_fail = (not block) or timeout is not None
        while True:
            if may_fail and s.lock_owner is not None:
                s.pause('ready')
                if s.lock_owner is not None and (not block or s.steps % 2 == 0):
                    s.log('acq_timeout', w)
                    return False
                continue
            s.pause('ready' if s.lock_owner is None else 'blocked')
            if s.lock_owner is None:
                s.lock_owner = w
                s.log('acq', w)
                return True

    def release(self):
        s = self.s
        w = s.wid()
        if w is None:
            return
        s.pause()
        if s.lock_owner != w:
            s.log('rel_unowned', w)
        s.lock_owner = None
        s.log('rel', w)

    def __enter__(self):
        self.acquire()
        return self

    def __exit__(self, *a):
        self.release()


class SValue:
    def __init__(self, sched, v):
        self.s = sched
        self._v = v

    @property
    def value(self):
        self.s.pause()
        w = self.s.wid()
        if w is not None:
            self.s.log('pget', w, self._v)
        return self._v

    @value.setter
    def value(self, v):
        self.s.pause()
        w = self.s.wid()
        self._v = v
        if w is not None:
            self.s.log('pset', w, v)


class SDict(dict):
    """ stand-in for a manager dict proxy; `name` is 'data' or a reverse-map namespace """
    def __init__(self, sched, name):
        super().__init__()
        self.s = sched
        self.name = name

    def __setitem__(self, k, v):
        self.s.pause()
        w = self.s.wid()
        dict.__setitem__(self, k, v)
        if w is not None:
            if self.name == 'data':
                self.s.log('dset', w, k, v)
            else:
                self.s.log('rset', w, self.name, k, v)

    def update(self, *a, **k):
        """ one manager request writing several items: one scheduling point, one event per
        item (a bulk rewrite of a per-item loop still corresponds to the model) """
        self.s.pause()
        w = self.s.wid()
        for key, v in dict(*a, **k).items():
            dict.__setitem__(self, key, v)
            if w is not None:
                if self.name == 'data':
                    self.s.log('dset', w, key, v)
                else:
                    self.s.log('rset', w, self.name, key, v)

    def __contains__(self, k):
        self.s.pause()
        w = self.s.wid()
        r = dict.__contains__(self, k)
        if w is not None and self.name != 'data':
            self.s.log('rin', w, self.name, k, r)
        return r

    def __getitem__(self, k):
        self.s.pause()
        return dict.__getitem__(self, k)

    def __deepcopy__(self, memo):
        return dict(self)


class SMgr:
    def __init__(self, sched):
        self.s = sched
        self.n = 0

    def Value(self, _typ, v):  # noqa, pylint: disable=invalid-name
        return SValue(self.s, v)

    def dict(self):
        names = ['data', 'value', 'tag', 'seq']
        d = SDict(self.s, names[self.n])
        self.n += 1
        return d


# ---- schedule policies -------------------------------------------------------

def random_chooser(rng):
    return lambda runnable, _i: rng.choice(runnable)


def sticky_chooser(rng, switch=0.2):
    """ keeps running the same worker, switching with probability `switch` """
    last = [None]

    def choose(runnable, _i):
        if last[0] in runnable and rng.random() > switch:
            return last[0]
        last[0] = rng.choice(runnable)
        return last[0]
    return choose


def pct_chooser(rng, nworkers, depth=3, horizon=200):
    """ PCT-style: random priorities, `depth` priority change points """
    prio = list(range(nworkers))
    rng.shuffle(prio)
    change = {rng.randrange(horizon): k for k in range(depth)}

    def choose(runnable, i):
        if i in change:
            w = max(runnable, key=lambda x: prio[x])
            prio[w] = -1 - change[i]
        return max(runnable, key=lambda x: prio[x])
    return choose


def replay_chooser(choices):
    """ follows a recorded choice list, then the lowest runnable id """
    def choose(runnable, i):
        if i < len(choices) and choices[i] in runnable:
            return choices[i]
        return runnable[0]
    return choose
