"""
C15 — the result store is an append-only injective table for every addition history.

Theorem side: lean/SkModel/Theorems/C15.lean (inductive invariant of Store.add).
Correspondence: operation sequences on the real ResultStoreSimple (plain and with a
harness-supplied pre-allocator) and on ResultStoreParallel (real manager and a
plain-object stand-in) followed by sync/unproxy; after every add the returned triple,
the whole table and the number of blocks requested are compared with the model, and
the property itself is checked directly on the implementation's trace.
"""
import multiprocessing

from vh import core

PROP = 'C15'
RULE = ("case = store kind (plain / pre-allocating with harness-chosen disjoint blocks in "
        "arbitrary order / manager-backed with the shared pointer bumped between adds) x "
        "block size 1..7 or 1000 x 1..300 add(tag, sequence_id, value) operations over a "
        "small alphabet shared by the three namespaces, with None components; observed "
        "after every step: returned triple, all (index, value) pairs, blocks requested; "
        "non-trivial = some value repeats AND (no pre-allocator or >=2 blocks requested); "
        "distinct by case hash")

# typed captures are stored as they are: the int 5 and the string '5' (1.5 and '1.5') are
# unequal values that merely PRINT alike
ALPHA = ['a', 'b', 'c', 'd', 'e', 'f', 'g', 'h', 't1', 't2', 's-1', 's-2', '', ' ', 'a ',
         5, '5', 1.5, '1.5', 0, '0']


def enc(v):
    """ the model's values are strings: injective encoding of the others """
    if v is None or isinstance(v, str):
        return v
    return '\x00%s:%r' % (type(v).__name__, v)


def gen_case(rng, tier):
    kind = rng.choice(['plain', 'local', 'local', 'managed', 'fakemgr', 'fakemgr'])
    B = rng.choice([1, 2, 3, 4, 5, 6, 7, 1000]) if kind != 'plain' else 1000
    r = rng.random()
    nops = (rng.randrange(1, 8) if r < 0.3 else
            rng.randrange(8, 40) if r < 0.8 else rng.randrange(40, 300))
    if kind == 'managed':
        nops = min(nops, 60)
    width = rng.choice([2, 4, 8, len(ALPHA), 200])

    def val():
        if rng.random() < 0.2:
            return None
        if width > len(ALPHA):
            return 'w%d' % rng.randrange(width)
        return ALPHA[rng.randrange(width)]

    ops = [[val(), val() if rng.random() < 0.4 else None, val()] for _ in range(nops)]
    case = {'store': kind, 'B': B, 'ops': ops}
    if kind == 'local':
        # disjoint blocks in arbitrary order
        nb = 3 * nops + 3
        slots = list(range(nb))
        if rng.random() < 0.6:
            rng.shuffle(slots)
        gap = rng.choice([0, 0, 1, 5])
        case['sup'] = [s * (B + gap) + rng.choice([0, 0, 3]) * 0 for s in slots]
    if kind in ('managed', 'fakemgr'):
        # bumps[i] = how many foreign blocks are taken from the shared pointer before op i
        case['bumps'] = [rng.choice([0, 0, 0, 1, 2]) for _ in range(nops)]
        if rng.random() < 0.3 and nops > 1:
            # sync() + unproxy_results() in the MIDDLE of the history: the store goes on being
            # the same table afterwards
            case['mid'] = rng.randrange(1, nops)
    if kind == 'fakemgr' and rng.random() < 0.3 and nops > 1:
        # the store object is SERIALISED in mid-history (handed to an executor, a queue, deep
        # copied): that must not change anything for the process that goes on using it
        case['ser'] = rng.randrange(1, nops)
    return case


class FakeValue:
    def __init__(self, v):
        self.value = v


class FakeMgr:
    """ plain-object stand-in for multiprocessing.Manager (single process) """
    def Value(self, _typ, v):  # noqa, pylint: disable=invalid-name
        return FakeValue(v)

    def dict(self):
        return {}


def run_impl(case):
    core.import_searchkit()
    from searchkit.results_store import (ResultStoreSimple, ResultStoreParallel,
                                         ResultStoreException)
    kind, B = case['store'], case['B']
    grants = []
    mgr = None
    try:
        if kind == 'plain':
            st = ResultStoreSimple()
            table = st
        elif kind == 'local':
            sup = list(case['sup'])

            def pre(size):
                start = sup[len(grants)]
                grants.append(start)
                return list(range(start, start + size))
            st = ResultStoreSimple(f_preallocator=pre, prealloc_block_size=B)
            table = st
        else:
            mgr = multiprocessing.Manager() if kind == 'managed' else FakeMgr()
            st = ResultStoreParallel(mgr, prealloc_block_size=B)
            orig = st.preallocate

            def pre(size):
                blk = orig(size)
                grants.append(blk[0])
                return blk
            st.preallocate = pre
            table = None
        steps = []
        for i, (t, s, v) in enumerate(case['ops']):
            if kind in ('managed', 'fakemgr'):
                if case.get('mid') == i:
                    st.sync()
                    st.unproxy_results()
                if case.get('ser') == i:
                    import copy
                    try:
                        copy.deepcopy(st)
                    except Exception:  # pylint: disable=broad-except
                        pass
                st.alloc_pointer.value += case['bumps'][i] * B
                table = st.local
            try:
                ret = st.add(t, s, v)
            except ResultStoreException:
                steps.append({'err': 'alloc'})
                break
            except Exception as e:  # pylint: disable=broad-except
                steps.append({'err': 'other:' + type(e).__name__})
                break
            data = [[k, val] for k, val in table.data.items()]
            steps.append({'ret': list(ret),
                          'store': {'data': data, 'nblocks': len(grants)},
                          'read': [[k, table[k], table.get(k)] for k, _ in data],
                          'values': list(table.values())})
        out = {'steps': steps, 'grants': list(grants)}
        if kind in ('managed', 'fakemgr') and 'err' not in steps[-1]:
            st.sync()
            st.unproxy_results()
            out['final'] = sorted([k, v] for k, v in st.data.items())
            out['final_read'] = sorted([k, st[k], st.get(k)] for k in st.data)
        return out
    finally:
        if kind == 'managed' and mgr is not None:
            mgr.shutdown()


def eval_cases(rng, count, extra):
    fixed = extra.get('fixed')
    todo = fixed if fixed is not None else [None] * count
    out = []
    for item in todo:
        case = item if item is not None else gen_case(rng, extra.get('tier', 'quick'))
        out.append({'case': case, 'impl': run_impl(case)})
    return out


def spec_check(case, impl):
    """ the property, checked directly on the implementation's trace """
    B = case['B']
    pre = case['store'] != 'plain'
    seen = {}          # value -> index
    prev_data = []
    order = []
    for n, (op, step) in enumerate(zip(case['ops'], impl['steps'])):
        if 'err' in step:
            return f"step {n}: add raised {step['err']}"
        t, s, v = op
        ti, si, vi = step['ret']
        data = step['store']['data']
        for comp, idx in ((v, vi), (t, ti), (s, si)):
            if comp is None:
                if idx is not None:
                    return f"step {n}: None component got index {idx}"
                continue
            if idx is None:
                return f"step {n}: value {comp!r} got no index"
            if comp in seen and seen[comp] != idx:
                return f"step {n}: value {comp!r} had index {seen[comp]} now {idx}"
            if comp not in seen:
                if idx in seen.values():
                    return f"step {n}: index {idx} given to two unequal values"
                seen[comp] = idx
                order.append(idx)
        if data[:len(prev_data)] != prev_data:
            return f"step {n}: table is not append-only"
        if any(val is None for _, val in data):
            return f"step {n}: None stored"
        lookup = dict(map(tuple, data))
        for val, idx in seen.items():
            if lookup.get(idx) != val:
                return f"step {n}: index {idx} no longer resolves to {val!r}"
        for k, a, b in step['read']:
            if a != lookup[k] or b != lookup[k]:
                return f"step {n}: store[{k}]/get({k}) disagree with the table"
        if step['values'] != [val for _, val in data]:
            return f"step {n}: values() disagrees with the table"
        prev_data = data
    if pre:
        grants = impl['grants']
        blocks = [range(g, g + B) for g in grants]
        # every index from a granted block, blocks used in order, each fully before the next
        expect = [i for blk in blocks for i in blk][:len(order)]
        if order != expect:
            return (f"indices handed out {order[:12]} are not the granted blocks "
                    f"{grants[:6]} used in order")
        need = (len(order) + B - 1) // B
        if len(grants) != need:
            return (f"{len(grants)} blocks requested for {len(order)} distinct values "
                    f"with block size {B}")
    else:
        if order != list(range(len(order))):
            return f"plain store indices {order[:12]} are not 0..n-1"
    if 'final' in impl:
        fin = dict(map(tuple, impl['final']))
        for val, idx in seen.items():
            if fin.get(idx) != val:
                return f"after sync/unproxy index {idx} resolves to {fin.get(idx)!r} not {val!r}"
        for k, a, b in impl['final_read']:
            if a != fin[k] or b != fin[k]:
                return f"after sync/unproxy store[{k}]/get({k}) disagree"
    return None


def model_case(case, impl):
    kind = case['store']
    if kind == 'local':
        sup = case['sup']
    elif kind == 'plain':
        sup = []
    else:
        sup = impl['grants']      # what the shared pointer handed out (C06 covers it)
    return {'kind': 'store', 'B': case['B'], 'pre': kind != 'plain', 'sup': sup,
            'ops': [[enc(x) for x in op] for op in case['ops']]}


def judge(rep, item, mobs):
    case, impl = item['case'], item['impl']
    vals = [x for op in case['ops'] for x in op if x is not None]
    nblocks = len(impl['grants'])
    nontrivial = len(set(vals)) < len(vals) and (case['store'] == 'plain' or nblocks >= 2)
    rep.note_case(case, nontrivial, sample={'case': case,
                                            'impl_last_step': impl['steps'][-1:]})
    rep.count('ops', len(case['ops']))
    rep.count('blocks_requested', nblocks)
    rep.count('kind_' + case['store'])
    bad = spec_check(case, impl)
    if bad:
        rep.fail('failing-input', case, bad, impl=impl)
        return
    msteps = mobs['model']['steps']
    isteps = [{k: v for k, v in s.items() if k in ('ret', 'store', 'err')}
              for s in impl['steps']]
    for st in isteps:
        if 'store' in st:
            st['store'] = dict(st['store'], data=[[k, enc(v)] for k, v in st['store']['data']])
    if isteps != msteps:
        for n, (a, b) in enumerate(zip(isteps, msteps)):
            if a != b:
                rep.fail('correspondence-broken', case,
                         f"step {n}: impl={a} model={b}", impl=isteps, model=msteps)
                return
        rep.fail('correspondence-broken', case, "different number of steps",
                 impl=isteps, model=msteps)


def run(tier, seed, replay_case=None):
    rep = core.Report(PROP, tier, seed)
    core.lean_build()
    aud = core.audit(PROP)
    from vh import bridge
    bridge.check(rep, PROP)
    total = 3000 if tier == 'quick' else 50000
    items = []
    corpus = core.load_corpus(PROP) if replay_case is None else [replay_case]
    if corpus:
        items += eval_cases(None, 0, {'fixed': corpus})
    if replay_case is None:
        items += core.run_sharded(eval_cases, seed, total, {'tier': tier})
    mobs = core.Driver().run([model_case(it['case'], it['impl']) for it in items])
    for it, mo in zip(items, mobs):
        judge(rep, it, mo)
    rep.assumptions = ["Python == / hash on str values", "manager proxies behave like "
                       "the dict / Value they wrap (sampled with a real manager)"]
    return rep.finish(aud, RULE)
