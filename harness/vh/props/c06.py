"""
C06 — concurrent workers never share a store index, for every interleaving.

Theorem side: lean/SkModel/Theorems/C06.lean (inductive invariants of the transition
system SkModel.ParStore: granted blocks pairwise disjoint, synced indices resolve,
no deadlock - for every interleaving and any number of workers).
Correspondence: the REAL `ResultStoreParallel` driven by a controlled scheduler
(one runnable worker at a time; instrumented stand-ins for the manager objects and the
module lock make every shared access a scheduling point).  Every recorded trace is
replayed through the model's step relation by the Lean driver
(traces_validated_against_impl) and the final shared store is compared; the property
is also checked directly on what the workers observed.
"""
import random

from vh import core, sched as SC

PROP = 'C06'
RULE = ("case = 2..4 workers x add sequences over a small alphabet forcing 0..3 block "
        "requests each x block size 1..5 x one schedule (seeded random / sticky / PCT-style "
        "priority schedules; thorough adds bounded exhaustive enumeration for 2 workers); "
        "non-trivial = at least two workers requested a block and the schedule switched "
        "workers inside a lock-protected region or between a pointer read and write; "
        "distinct by (case, choice list) hash")

# '' (a group that matched the empty string) and the int 0 (a typed field) are falsy but are
# values like any other
ALPHA = ['a', 'b', 'c', 'd', 'e', 'f', 'g', 'h', 'i', 'j', 't1', 't2', 's-1', '', 0]


def enc(v):
    """ the model's values are strings: injective encoding of the non-string ones """
    if v is None or isinstance(v, str):
        return v
    return '\x00%s:%r' % (type(v).__name__, v)


def enc_trace(trace):
    out = []
    for ev in trace:
        if ev[0] == 'dset':
            ev = ev[:3] + [enc(ev[3])]
        elif ev[0] in ('rset', 'rin'):
            ev = ev[:3] + [enc(ev[3])] + ev[4:]
        out.append(ev)
    return out


def stutter_reads(trace):
    """
    The model's preallocate reads the pointer twice before writing it (`current = ptr.value;
    ptr.value += size`).  A rewrite that reads it once (`ptr.value = current + size`) - or three
    times - inside the same critical section is the same algorithm; to keep such a trace a run
    of the model, a worker's pointer reads between its `acq` and its `pset` are padded (the
    last read repeated) or trimmed (a read that saw the SAME value as the one before dropped)
    to exactly two.  A repeated read claims nothing new: the model still checks that the
    value it saw is the pointer's value at that point, so a write by another worker in
    between (a broken lock) makes the padded trace invalid, never valid.
    """
    out = []
    open_reads = {}            # worker -> indices (in out) of its pgets since its last acq
    for ev in trace:
        kind, w = ev[0], ev[1]
        if kind == 'acq':
            open_reads[w] = []
        elif kind == 'pget' and w in open_reads:
            idxs = open_reads[w]
            if len(idxs) >= 2 and out[idxs[-1]][2] == ev[2]:
                continue                                    # a third look at the same value
            idxs.append(len(out))
        elif kind == 'pset' and w in open_reads:
            idxs = open_reads.pop(w)
            if len(idxs) == 1:
                out.append(list(out[idxs[0]]))              # the read it did not repeat
        elif kind == 'rel':
            open_reads.pop(w, None)
        out.append(ev)
    return out


def gen_case(rng, tier):
    nw = rng.choice([2, 2, 3, 4])
    B = rng.choice([1, 2, 2, 3, 4, 5])
    progs = []
    for _ in range(nw):
        want_blocks = rng.choice([0, 1, 1, 2, 3])
        nvals = 0 if want_blocks == 0 else rng.randrange((want_blocks - 1) * B + 1,
                                                        want_blocks * B + 1)
        vals = rng.sample(ALPHA, min(nvals, len(ALPHA)))
        ops, pool = [], list(vals)
        while pool:
            v = pool.pop() if rng.random() < 0.8 else None
            t = pool.pop() if pool and rng.random() < 0.4 else (
                rng.choice(vals) if rng.random() < 0.3 else None)
            s = pool.pop() if pool and rng.random() < 0.2 else None
            ops.append([t, s, v])
        for _ in range(rng.choice([0, 0, 1, 2])):
            if vals:
                ops.insert(rng.randrange(len(ops) + 1),
                           [rng.choice(vals + [None]), None, rng.choice(vals)])
        progs.append(ops)
    pol = rng.choice(['random', 'random', 'sticky', 'pct'])
    ser = None
    if rng.random() < 0.25:
        w = rng.randrange(len(progs))
        if len(progs[w]) > 1:
            ser = {str(w): rng.randrange(1, len(progs[w]))}
    return {'B': B, 'progs': progs, 'policy': pol, 'pseed': rng.randrange(1 << 30), 'ser': ser}


def chooser_for(case):
    if case.get('choices') is not None:
        return SC.replay_chooser(case['choices'])
    rng = random.Random(case['pseed'])
    if case['policy'] == 'sticky':
        return SC.sticky_chooser(rng)
    if case['policy'] == 'pct':
        return SC.pct_chooser(rng, len(case['progs']))
    return SC.random_chooser(rng)


def run_impl(case):
    core.import_searchkit()
    from searchkit import results_store as RS
    sched = SC.Scheduler(chooser_for(case))
    orig = RS.RESULTS_STORE_LOCK
    RS.RESULTS_STORE_LOCK = SC.SLock(sched)
    out = {}
    try:
        base = RS.ResultStoreParallel(SC.SMgr(sched), prealloc_block_size=case['B'])
        grants = [[] for _ in case['progs']]
        handed = [[] for _ in case['progs']]
        clones = []
        for w in range(len(case['progs'])):
            c = RS.ResultStoreParallel.__new__(RS.ResultStoreParallel)
            c.__dict__.update(base.__dict__)      # what pickling into a worker gives
            c._local_store = None
            orig_pre = c.preallocate

            def pre(size, w=w, orig_pre=orig_pre):
                blk = orig_pre(size)
                grants[w].append(list(blk))
                return blk
            c.preallocate = pre
            clones.append(c)

        def body(w):
            c = clones[w]
            for k, (t, s, v) in enumerate(case['progs'][w]):
                if (case.get('ser') or {}).get(str(w)) == k:
                    # the worker's store object starts being serialised (what pickle / deepcopy
                    # do first: ask the object for its state): must change nothing
                    try:
                        c.__reduce_ex__(4)
                    except Exception:  # pylint: disable=broad-except
                        pass
                ret = c.add(t, s, v)
                handed[w].append([[t, s, v], list(ret)])
                sched.log('ret', w, ret[0], ret[1], ret[2])
            sched.log('syncstart', w)
            c.sync()
            sched.log('syncend', w)
        try:
            sched.run([body] * len(clones))
            out['deadlock'] = None
        except SC.Deadlock as e:
            out['deadlock'] = str(e)
        out.update({'trace': sched.trace, 'errors': sched.errors, 'grants': grants,
                    'handed': handed, 'choices': [c for c, _ in sched.choices],
                    'branching': [len(r) for _, r in sched.choices],
                    'ptr': base.alloc_pointer._v})
        if not out['deadlock'] and not sched.errors:
            base.unproxy_results()
            out['shared'] = sorted([k, v] for k, v in base.data.items())
        return out
    finally:
        RS.RESULTS_STORE_LOCK = orig


def eval_cases(rng, count, extra):
    fixed = extra.get('fixed')
    todo = fixed if fixed is not None else [None] * count
    out = []
    for item in todo:
        case = item if item is not None else gen_case(rng, extra.get('tier', 'quick'))
        impl = run_impl(case)
        case = dict(case)
        case['choices'] = impl.pop('choices')        # the interleaving replays exactly
        out.append({'case': case, 'impl': impl})
    return out


def spec_check(case, impl):
    if impl['deadlock']:
        return f"deadlock: {impl['deadlock']}"
    if impl['errors']:
        return f"a worker failed: {impl['errors'][0]}"
    B = case['B']
    blocks = [(w, b[0]) for w, bl in enumerate(impl['grants']) for b in bl]
    for i, (w1, a) in enumerate(blocks):
        for w2, b in blocks[i + 1:]:
            if not (a + B <= b or b + B <= a):
                return (f"blocks [{a},{a + B}) of worker {w1} and [{b},{b + B}) of worker {w2} "
                        "overlap")
    owner = {}
    for w, hs in enumerate(impl['handed']):
        for (t, s, v), (ti, si, vi) in hs:
            for comp, idx in ((v, vi), (t, ti), (s, si)):
                if comp is None:
                    continue
                if idx is None:
                    return f"worker {w}: value {comp!r} got no index"
                if owner.setdefault(idx, w) != w:
                    return f"index {idx} handed out by workers {owner[idx]} and {w}"
    shared = dict(map(tuple, impl['shared']))
    for w, hs in enumerate(impl['handed']):
        for (t, s, v), (ti, si, vi) in hs:
            for comp, idx in ((v, vi), (t, ti), (s, si)):
                if comp is not None and shared.get(idx) != comp:
                    return (f"after all syncs index {idx} (handed out by worker {w} for "
                            f"{comp!r}) resolves to {shared.get(idx)!r}")
    return None


def model_case(item):
    item['_norm'] = stutter_reads(item['impl']['trace'])
    return {'kind': 'parstore', 'B': item['case']['B'],
            'progs': [[[enc(x) for x in op] for op in p] for p in item['case']['progs']],
            'events': enc_trace(item['_norm'])}


def interesting(impl):
    """ the schedule switched workers inside a protected region """
    holder, last, switched = None, None, False
    for ev in impl['trace']:
        kind, w = ev[0], ev[1]
        if holder is not None and w != holder and kind in ('acq',):
            pass
        if kind == 'acq':
            holder = w
        elif kind == 'rel':
            holder = None
        if holder is not None and last is not None and w != last:
            switched = True
        last = w
    return switched and sum(1 for g in impl['grants'] if g) >= 2


def judge(rep, item, mobs):
    case, impl = item['case'], item['impl']
    rep.evaluations += 1
    if interesting(impl):
        rep.nontrivial.add(core.digest([case['progs'], case['B'], case['choices']]))
    if len(rep.samples) < 2:
        rep.samples.append({'case': {k: case[k] for k in ('B', 'progs', 'policy')},
                            'trace_head': impl['trace'][:25]})
    rep.count('steps', len(case['choices']))
    rep.count('block_requests', sum(len(g) for g in impl['grants']))
    rep.count('workers_%d' % len(case['progs']))
    bad = spec_check(case, impl)
    if bad:
        rep.fail('failing-input', case, bad, impl={k: impl[k] for k in
                                                   ('grants', 'handed', 'errors', 'deadlock')})
        return
    m = mobs['model']
    if not m['valid']:
        rep.fail('correspondence-broken', case,
                 f"trace event #{m['at']} {item.get('_norm', impl['trace'])[m['at']]}: "
                 f"{m['why']}",
                 impl=item.get('_norm', impl['trace'])[:m['at'] + 1], model=m)
        return
    rep.traces_validated += 1
    mg = [w['grants'] for w in m['workers']]
    ig = [[b[0] for b in g] for g in impl['grants']]
    mshared = sorted(m['shared'])
    ishared = sorted([k, enc(v)] for k, v in impl['shared'])
    if mg != ig or mshared != ishared or not all(w['done'] for w in m['workers']) \
            or m['ptr'] != impl['ptr']:
        rep.fail('correspondence-broken', case,
                 f"final state differs: grants impl={ig} model={mg}; shared impl="
                 f"{impl['shared']} model={mshared}", impl=impl['shared'], model=m)


def dfs_cases(case, budget, max_preempt=2):
    """ bounded exhaustive enumeration of schedules by replay (thorough tier) """
    out, stack, seen = [], [[]], set()
    while stack and len(out) < budget:
        prefix = stack.pop()
        c = dict(case)
        c['choices'] = prefix
        impl = run_impl(c)
        choices, branching = impl.pop('choices'), impl['branching']
        c['choices'] = choices
        key = tuple(choices)
        if key in seen:
            continue
        seen.add(key)
        out.append({'case': c, 'impl': impl})
        # alternatives after the prefix
        trace_run = impl.get('runnable')
        for i in range(len(prefix), len(choices)):
            if branching[i] > 1:
                pre = sum(1 for k in range(1, i + 1) if choices[k] != choices[k - 1])
                if pre >= max_preempt + len(case['progs']):
                    continue
                for alt in range(len(case['progs'])):
                    if alt != choices[i]:
                        stack.append(choices[:i] + [alt])
    return out


def dfs_shard(rng, count, extra):
    out = []
    for _ in range(count):
        case = gen_case(rng, 'thorough')
        case['progs'] = case['progs'][:2]
        out += dfs_cases(case, extra['budget'])
    return out


def run(tier, seed, replay_case=None):
    rep = core.Report(PROP, tier, seed)
    core.lean_build()
    aud = core.audit(PROP)
    from vh import bridge
    bridge.check(rep, PROP)
    total = 3000 if tier == 'quick' else 50000
    items = []
    corpus = core.load_corpus(PROP) if replay_case is None else [replay_case]
    if corpus:
        items += eval_cases(None, 0, {'fixed': corpus})
    if replay_case is None:
        items += core.run_sharded(eval_cases, seed, total, {'tier': tier})
        if tier == 'thorough':
            items += core.run_sharded(dfs_shard, seed + 7, 32, {'budget': 600})
    mobs = core.Driver().run([model_case(it) for it in items])
    for it, mo in zip(items, mobs):
        judge(rep, it, mo)
    rep.assumptions = ["each single access to a manager proxy (Value get/set, dict get/set/"
                       "contains) is atomic", "the real lock is a multiprocessing.Lock; here a "
                       "scheduler-level lock with the same acquire/release protocol"]
    return rep.finish(aud, RULE)
