"""
C14 — result-collection lookups are consistent views of one multiset of results.

Theorem side: lean/SkModel/Theorems/C14.lean.  Correspondence: every public accessor
of the real `SearchResultsCollection`, on synthetic populations filled through `add()`
in arbitrary batches and on populations produced by real single- and multi-process
runs, against the model and against the property stated directly on the per-path lists.
"""
import os
import shutil
import tempfile

from vh import core, gen, scenario as S

PROP = 'C14'
RULE = ("case = population of results over 1..4 paths (some empty), 1..5 definitions (simple "
        "and sequence, tags shared between simple searches and between sequence definitions), "
        "filled by add() in random batches interleaving paths, or produced by a real run (one "
        "file in-process / several files multi-process); every accessor queried for every "
        "path (plus an unknown one) and tag; non-trivial = >= 2 paths with results, a tag "
        "shared by two definitions and >= 2 sections; distinct by case hash")


def gen_case(rng, tier):
    npaths = rng.choice([1, 2, 2, 3, 4])
    ndefs = rng.choice([1, 2, 3, 4, 5])
    defs = []
    for _ in range(ndefs):
        if rng.random() < 0.5:
            defs.append({'type': 'seq', 'tag': rng.choice(['q1', 'q2', 'q1', 'shared'])})
        else:
            defs.append({'type': 'simple', 'tag': rng.choice(['t1', 't2', None, 'shared', 'q1'])})
    n = rng.choice([0, 1, 3, 8, 20, 60])
    results = []
    open_sec = {}
    nsec = 0
    for _ in range(n):
        di = rng.randrange(ndefs)
        src = rng.randrange(npaths)
        if defs[di]['type'] == 'seq':
            key = (src, di)
            if key not in open_sec or rng.random() < 0.3:
                open_sec[key] = nsec
                nsec += 1
            results.append({'src': src, 'def': di, 'sec': open_sec[key],
                            'role': rng.choice(['start', 'body', 'body', 'end'])})
        else:
            results.append({'src': src, 'def': di, 'sec': None, 'role': None})
    batches, i = [], 0
    while i < len(results):
        k = rng.choice([1, 2, 3, 10])
        batches.append(results[i:i + k])
        i += k
    return {'synthetic': True, 'npaths': npaths, 'defs': defs, 'batches': batches,
            'alias': rng.choice(['/./', '//']) if npaths >= 2 and rng.random() < 0.15 else None}


def gen_real_case(rng, tier, multi):
    nfiles = rng.choice([2, 3]) if multi else 1
    files = []
    for k in range(nfiles):
        n = rng.choice([0, 3, 8, 20])
        files.append({'name': f'f{k}.txt',
                      'content': gen.assemble(rng, gen.gen_lines(rng, n, seqish=True)).hex()})
    defs = []
    for _ in range(rng.choice([2, 3, 4])):
        defs.append(gen.gen_seq_def(rng) if rng.random() < 0.5 else gen.gen_simple_def(rng))
    regs = [[i, k] for i in range(len(defs)) for k in range(nfiles) if rng.random() < 0.8]
    if not regs:
        regs = [[0, 0]]
    scn = {'files': files, 'defs': defs, 'regs': regs}
    if multi and rng.random() < 0.4:
        # the definition objects were used before, by a one-file (in-process) searcher
        scn['_pre_run'] = True
    return {'synthetic': False, 'scn': scn}


def observe(coll, paths, tags, seqobjs, uid_of):
    """ every public accessor; results named by uid """
    def u(rs):
        return [uid_of[id(r)] for r in rs]

    def secs(d):
        return [[None if k is None else str(k), u(v)] for k, v in d.items()]

    def pidx(p):
        return paths.index(p) if p in paths else -1
    unknown = os.path.join(os.path.dirname(paths[0]) if paths else '/', 'no-such-file')
    out = {'len': len(coll), 'all': u(coll.all), 'files': [pidx(p) for p in coll.files],
           'items': [[pidx(p), u(v)] for p, v in coll.items()],
           'keys': [pidx(p) for p in coll], 'path': {}, 'tag': {}, 'seqobj': {}, 'seqtag': {}}
    qpaths = [(i, p) for i, p in enumerate(paths)] + [(-1, unknown)]
    for i, p in qpaths:
        out['path'][str(i)] = u(coll.find_by_path(p))
    for t in tags:
        out['tag'][t] = {'*': u(coll.find_by_tag(t))}
        out['seqtag'][t] = {'*': secs(coll.find_sequence_by_tag(t))}
        for i, p in qpaths:
            out['tag'][t][str(i)] = u(coll.find_by_tag(t, path=p))
            out['seqtag'][t][str(i)] = secs(coll.find_sequence_by_tag(t, path=p))
    for k, obj in enumerate(seqobjs):
        out['seqobj'][str(k)] = {'*': secs(coll.find_sequence_sections(obj))}
        for i, p in qpaths:
            out['seqobj'][str(k)][str(i)] = secs(coll.find_sequence_sections(obj, path=p))
    return out


def run_synthetic(case):
    core.import_searchkit()
    from searchkit import FileSearcher, SearchDef, SequenceSearchDef
    from searchkit.result import SearchResultMinimal
    from searchkit.results_store import ResultStoreSimple
    from searchkit.search import SearchResultsCollection
    tmpdir = tempfile.mkdtemp(prefix='vh-')
    try:
        paths = []
        for k in range(case['npaths']):
            p = os.path.join(tmpdir, f'f{k}')
            if k == 1 and case.get('alias'):
                # a second SPELLING of the first path: to the library another path (its own
                # catalog entry, its own source id, its own list of results)
                p = tmpdir + case['alias'] + 'f0'
            with open(p, 'w') as f:
                f.write('x\n')
            paths.append(p)
        fs = FileSearcher()
        objs = []
        for d in case['defs']:
            if d['type'] == 'seq':
                objs.append(SequenceSearchDef(start=SearchDef('S'), body=SearchDef('B'),
                                              end=SearchDef('E'), tag=d['tag']))
            else:
                objs.append(SearchDef('x', tag=d['tag']))
        for p in paths:
            for o in objs:
                fs.add(o, p)
        store = ResultStoreSimple()
        coll = SearchResultsCollection(fs.catalog, store)
        uid_of, facts, n = {}, [], 0
        keep = []
        for batch in case['batches']:
            objs_b = []
            for r in batch:
                d = case['defs'][r['def']]
                o = objs[r['def']]
                if d['type'] == 'seq':
                    tag, seqid = f"{d['tag']}-{r['role']}", o.id
                else:
                    tag, seqid = d['tag'], None
                ti, si, _ = store.add(tag, seqid, None)
                sid = fs.catalog.get_source_id(paths[r['src']])
                res = SearchResultMinimal([], (ti, si), n + 1, sid,
                                          None if r['sec'] is None else f"sec-{r['sec']}", None)
                uid_of[id(res)] = n
                facts.append({'uid': n, 'src': r['src'], 'tag': tag,
                              'seq': r['def'] if seqid else None, 'sec': r['sec']})
                keep.append(res)
                objs_b.append(res)
                n += 1
            coll.add(objs_b)
        tags = sorted({d['tag'] for d in case['defs'] if d['tag'] is not None} |
                      {f['tag'] for f in facts if f['tag'] is not None})
        reg_tags = sorted({d['tag'] for d in case['defs'] if d['tag'] is not None})
        seqobjs = [o for o, d in zip(objs, case['defs']) if d['type'] == 'seq']
        seqidx = [i for i, d in enumerate(case['defs']) if d['type'] == 'seq']
        obs = observe_safe(coll, paths, tags, reg_tags, seqobjs, uid_of)
        tagids = {t: [i for i, d in enumerate(case['defs']) if d['tag'] == t]
                  for t in reg_tags}
        return {'obs': obs, 'facts': [facts_of_batch(facts, case)],
                'batches': batch_facts(facts, case), 'npaths': len(paths), 'tags': tags,
                'reg_tags': reg_tags, 'seqidx': seqidx, 'tagids': tagids}
    finally:
        shutil.rmtree(tmpdir, ignore_errors=True)


def facts_of_batch(facts, case):
    return len(facts)


def batch_facts(facts, case):
    out, i = [], 0
    for b in case['batches']:
        out.append(facts[i:i + len(b)])
        i += len(b)
    return out


def observe_safe(coll, paths, tags, reg_tags, seqobjs, uid_of):
    """ find_sequence_by_tag raises KeyError for a tag no search was registered with """
    obs = observe(coll, paths, reg_tags, seqobjs, uid_of)
    for t in tags:
        if t not in reg_tags:
            obs['tag'][t] = {'*': [uid_of[id(r)] for r in coll.find_by_tag(t)]}
            for i, p in enumerate(paths):
                obs['tag'][t][str(i)] = [uid_of[id(r)] for r in coll.find_by_tag(t, path=p)]
    return obs


def run_real(case):
    core.import_searchkit()
    scn = case['scn']
    tmpdir = tempfile.mkdtemp(prefix='vh-')
    try:
        built = S.Built(scn, tmpdir)
        if scn.get('_pre_run'):
            from searchkit import FileSearcher
            fs0 = FileSearcher()
            p0 = os.path.join(tmpdir, scn['files'][0]['name'])
            for r in scn['regs']:
                if r[1] == 0:
                    fs0.add(built.defs[r[0]], p0)
            if fs0.files:
                with core.time_limit(core.SINGLE_LIMIT):
                    fs0.run()
        fs = built.searcher()
        limit = core.MULTI_LIMIT if len(fs.files) > 1 else core.SINGLE_LIMIT
        try:
            with core.time_limit(limit):
                coll = fs.run()
        except core.CaseTimeout:
            core.kill_children()
            return {'crash': f'hang(>{limit}s)', 'trace': 'run() did not return'}
        paths = [os.path.join(tmpdir, f['name']) for f in scn['files']]
        uid_of, facts, secmap = {}, [], {}
        for p in coll.files:
            for r in coll.find_by_path(p):
                uid = len(facts)
                uid_of[id(r)] = uid
                sec = r.section_id
                if sec is not None:
                    sec = secmap.setdefault(sec, len(secmap))
                seq = r.sequence_id
                facts.append({'uid': uid, 'src': paths.index(p), 'tag': r.tag,
                              'seq': built.def_index[seq] if seq is not None else None,
                              'sec': sec})
        # results carrying the start/body/end tag of a sequence search are results OF that
        # search (whether or not the part stores its contents): they must be reachable through
        # the sequence lookups, i.e. know their sequence
        orphans = []
        all_tags = [d.get('tag') for d in scn['defs']]
        for i, d in enumerate(scn['defs']):
            if d['type'] != 'seq' or all_tags.count(d['tag']) != 1:
                continue
            derived = {f"{d['tag']}-{part}" for part in ('start', 'body', 'end')}
            if derived & set(all_tags):
                continue
            for f in facts:
                if f['tag'] in derived and f['seq'] != i:
                    orphans.append([f['tag'], f['src'], f['seq']])
        # path arguments are PATHS, not patterns: a look-alike name with glob metacharacters that
        # was never searched has no results, whatever the view
        globby = []
        for pat in ('*', 'f?.txt', 'f[0-9].txt', '*.txt', 'f[!x].txt'):
            gp = os.path.join(tmpdir, pat)
            n = len(coll.find_by_path(gp))
            for t in {f['tag'] for f in facts if f['tag'] is not None}:
                n += len(coll.find_by_tag(t, path=gp))
            for i, d in enumerate(scn['defs']):
                if d['type'] == 'seq' and any(r[0] == i for r in scn['regs']):
                    n += len(coll.find_sequence_sections(built.defs[i], path=gp))
            if n:
                globby.append([pat, n])
        regd = sorted({r[0] for r in scn['regs']})
        reg_tags = sorted({scn['defs'][i]['tag'] for i in regd
                           if scn['defs'][i].get('tag') is not None})
        tags = sorted(set(reg_tags) | {f['tag'] for f in facts if f['tag'] is not None})
        seqidx = [i for i in regd if scn['defs'][i]['type'] == 'seq']
        seqobjs = [built.defs[i] for i in seqidx]
        obs = observe_safe(coll, paths, tags, reg_tags, seqobjs, uid_of)
        # one batch per path, in the order the collection lists its files
        batches, cur = [], None
        for f in facts:
            if cur is None or cur[-1]['src'] != f['src']:
                cur = []
                batches.append(cur)
            cur.append(f)
        # catalog order of ids for a tag = order of first registration
        order = []
        for r in scn['regs']:
            if r[0] not in order:
                order.append(r[0])
        tagids = {t: [i for i in order if scn['defs'][i].get('tag') == t] for t in reg_tags}
        return {'obs': obs, 'batches': batches, 'npaths': len(paths), 'tags': tags,
                'reg_tags': reg_tags, 'seqidx': seqidx, 'tagids': tagids, 'orphans': orphans,
                'globby': globby}
    finally:
        shutil.rmtree(tmpdir, ignore_errors=True)


def eval_cases(rng, count, extra):
    fixed = extra.get('fixed')
    todo = fixed if fixed is not None else [None] * count
    out = []
    for item in todo:
        if item is not None:
            case = item
        elif extra.get('real') == 'multi':
            case = gen_real_case(rng, extra.get('tier', 'quick'), True)
        elif extra.get('real') == 'single':
            case = gen_real_case(rng, extra.get('tier', 'quick'), False)
        else:
            case = gen_case(rng, extra.get('tier', 'quick'))
        try:
            impl = run_synthetic(case) if case.get('synthetic') else run_real(case)
        except Exception as e:  # pylint: disable=broad-except
            import traceback
            impl = {'crash': type(e).__name__, 'trace': traceback.format_exc()[-1500:]}
        out.append({'case': case, 'impl': impl})
    return out


def queries(impl):
    qs = [['len'], ['all'], ['files'], ['items']]
    pidx = list(range(impl['npaths'])) + [-1]
    for i in pidx:
        qs.append(['path', i if i >= 0 else 999])
    for t in impl['tags']:
        qs.append(['tag', t, None])
        for i in (pidx if t in impl['reg_tags'] else pidx[:-1]):
            qs.append(['tag', t, i if i >= 0 else 999])
    for t in impl['reg_tags']:
        qs.append(['seqtag', impl['tagids'][t], None])
        for i in pidx:
            qs.append(['seqtag', impl['tagids'][t], i if i >= 0 else 999])
    for k in impl['seqidx']:
        qs.append(['seqobj', k, None])
        for i in pidx:
            qs.append(['seqobj', k, i if i >= 0 else 999])
    return qs


def impl_answers(impl):
    """ the impl observation laid out in the order of queries() """
    obs = impl['obs']
    pidx = list(range(impl['npaths'])) + [-1]

    def secs(lst):
        return lst
    out = [obs['len'], obs['all'], obs['files'], obs['items']]
    for i in pidx:
        out.append(obs['path'][str(i)])
    for t in impl['tags']:
        out.append(obs['tag'][t]['*'])
        for i in (pidx if t in impl['reg_tags'] else pidx[:-1]):
            out.append(obs['tag'][t][str(i)])
    for t in impl['reg_tags']:
        out.append(secs(obs['seqtag'][t]['*']))
        for i in pidx:
            out.append(secs(obs['seqtag'][t][str(i)]))
    for n, _k in enumerate(impl['seqidx']):
        out.append(secs(obs['seqobj'][str(n)]['*']))
        for i in pidx:
            out.append(secs(obs['seqobj'][str(n)][str(i)]))
    return out


def canon_sections(ans):
    """ section keys are opaque: compare the groups, in order """
    if isinstance(ans, list) and ans and isinstance(ans[0], list) and len(ans[0]) == 2 \
            and isinstance(ans[0][1], list) and not isinstance(ans[0][0], list):
        return [g for _k, g in ans]
    return ans


def spec_check(impl):
    """ the property stated on the per-path lists the collection itself returns """
    obs = impl['obs']
    if impl.get('globby'):
        pat, n = impl['globby'][0]
        return (f"lookups for the path named {pat!r} (never searched; it merely LOOKS like a "
                f"pattern matching searched files) returned {n} results / sections")
    if impl.get('orphans'):
        t, src, seq = impl['orphans'][0]
        return (f"a result tagged {t!r} (path {src}) reports sequence {seq}: it belongs to no "
                "section, so the sequence lookups do not partition the results of that "
                f"sequence search ({len(impl['orphans'])} such results)")
    facts = {f['uid']: f for b in impl['batches'] for f in b}
    per_path = {i: obs['path'][str(i)] for i in range(impl['npaths'])}
    files = obs['files']
    allr = [u for i in files for u in per_path[i]]
    if sorted(allr) != sorted(facts):
        return "the per-path lists do not hold every added result exactly once"
    for i, lst in per_path.items():
        if any(facts[u]['src'] != i for u in lst):
            return f"a result is filed under path {i} but was found in another file"
        if i not in files and lst:
            return "find_by_path returns results for a path that is not in files"
    if obs['len'] != len(allr):
        return f"len() = {obs['len']} but the per-path lists hold {len(allr)} results"
    if obs['all'] != allr:
        return "iteration over all results differs from the per-path lists"
    if obs['items'] != [[i, per_path[i]] for i in files] or obs['keys'] != files:
        return "items()/iteration differ from the per-path lists"
    if obs['path']['-1'] != []:
        return "lookup for an unknown path is not empty"
    for t, byp in obs['tag'].items():
        if byp['*'] != [u for u in allr if facts[u]['tag'] == t]:
            return f"find_by_tag({t!r}) is not exactly the results carrying that tag"
        for k, lst in byp.items():
            if k == '*':
                continue
            want = [u for u in per_path.get(int(k), []) if facts[u]['tag'] == t]
            if lst != want:
                return f"find_by_tag({t!r}, path {k}) wrong"
    for t, byp in obs['seqtag'].items():
        ids = [i for i in impl['tagids'][t] if i in impl['seqidx']]
        for k, secs in byp.items():
            scope = allr if k == '*' else per_path.get(int(k), [])
            want = [u for u in scope if facts[u]['seq'] in ids]
            got = [u for _key, grp in secs for u in grp]
            if sorted(got) != sorted(want):
                return (f"find_sequence_by_tag({t!r}, path {k}): sections hold {sorted(got)} "
                        f"but the results of the matching sequence searches are {sorted(want)}")
            for _key, grp in secs:
                if not grp or len({(facts[u]['src'], facts[u]['seq']) for u in grp}) != 1:
                    return f"find_sequence_by_tag({t!r}): a section mixes files or definitions"
                if len({facts[u]['sec'] for u in grp}) != 1:
                    return f"find_sequence_by_tag({t!r}): a section mixes section ids"
    return None


def judge(rep, item, mobs):
    case, impl = item['case'], item['impl']
    if 'crash' in impl:
        rep.note_case(case, False)
        rep.fail('failing-input', case, f"accessor raised {impl['crash']}", impl=impl)
        return
    facts = [f for b in impl['batches'] for f in b]
    tagdefs = {}
    for t, ids in impl['tagids'].items():
        tagdefs[t] = len(ids)
    nontriv = (len({f['src'] for f in facts}) >= 2 and
               any(v >= 2 for v in tagdefs.values()) and
               len({f['sec'] for f in facts if f['sec'] is not None}) >= 2)
    rep.note_case(case, nontriv, sample={'case': case if case.get('synthetic') else
                                         {'real_run_files': len(case['scn']['files'])},
                                         'len': impl['obs']['len']})
    rep.count('synthetic' if case.get('synthetic') else
              'real_multi' if len(case['scn']['files']) > 1 else 'real_single')
    rep.count('results', len(facts))
    bad = spec_check(impl)
    if bad:
        rep.fail('failing-input', case, bad, impl=impl['obs'])
        return
    ia = [canon_sections(a) for a in impl_answers(impl)]
    ma = [canon_sections(a) for a in mobs['model']['answers']]
    qs = queries(impl)
    for q, a, b in zip(qs, ia, ma):
        if a != b:
            rep.fail('correspondence-broken', case, f"query {q}: impl={a} model={b}",
                     impl=a, model=b)
            return


def model_case(impl):
    if 'crash' in impl:
        return {'kind': 'coll', 'batches': [], 'queries': []}
    return {'kind': 'coll', 'batches': impl['batches'], 'queries': queries(impl)}


def run(tier, seed, replay_case=None):
    rep = core.Report(PROP, tier, seed)
    core.lean_build()
    aud = core.audit(PROP)
    n_syn, n_single, n_multi = (400, 90, 10) if tier == 'quick' else (4000, 900, 100)
    items = []
    corpus = core.load_corpus(PROP) if replay_case is None else [replay_case]
    if corpus:
        items += eval_cases(None, 0, {'fixed': corpus})
    if replay_case is None:
        items += core.run_sharded(eval_cases, seed, n_syn, {'tier': tier})
        items += core.run_sharded(eval_cases, seed + 1, n_single, {'tier': tier, 'real': 'single'})
        items += core.run_sharded(eval_cases, seed + 2, n_multi, {'tier': tier, 'real': 'multi'},
                                  shards=min(10, n_multi))
    mobs = core.Driver().run([model_case(it['impl']) for it in items])
    for it, mo in zip(items, mobs):
        judge(rep, it, mo)
    rep.assumptions = ["section ids (uuid4) are unique per (file, definition)",
                       "result tag / sequence id are read through the result store (C05)"]
    return rep.finish(aud, RULE)
