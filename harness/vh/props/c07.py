"""
C07 — a search's own since constraint gates only that search, from the first passing
line; other searches are unaffected; a file-level constraint is not applied to a file
on which any search was registered with allow_global_constraints=False.

Theorem side: lean/SkModel/Theorems/C07.lean.  Correspondence: in-process runs mixing
constrained / unconstrained simple and sequence searches, timestamps in any order,
undated lines anywhere, with/without file-level constraint and restriction.
"""
from vh import core, gen, seekcheck as K, scenario as S, taskcheck as T

PROP = 'C07'
RULE = ("scenario = one log (timestamps in any order, undated lines anywhere, look-alike "
        "dates) x 1..3 since constraints (1..3 matcher variants) x 1..5 simple/sequence "
        "searches each carrying 0..2 of them (registered by file path / directory / glob) x "
        "allow_global_constraints on/off x with/without "
        "file-level constraint; non-trivial = a constrained search has an activation line > "
        "0 and a match after it, or a restriction suppresses an applicable file-level "
        "constraint; distinct by scenario hash")

HETERO_SIG = 'hetero-matchers/any-pass-not-all'


def gen_long_undated(rng):
    """ a run of undated lines around the seeker's 500-line fallback limit between an old
    dated line and the first line that satisfies the since constraint: the per-search gate has
    no such limit - it opens at the first passing line, never earlier """
    from datetime import timedelta
    from vh import matchers
    t0 = gen.BASE
    nshare = rng.choice([1, 1, 2, 3])
    n = rng.choice([499, 500, 501, 502, 520]) // rng.choice([1, nshare]) + rng.choice([0, 1, 2])
    lines = [matchers.fmt_ts('std', t0, rng).encode() + b' old B warn']
    lines += [rng.choice([b'B undated', b'  at frame x', b'S err']) for _ in range(n)]
    for k in range(rng.choice([1, 3])):
        lines.append(matchers.fmt_ts('std', t0 + timedelta(days=2, seconds=k), rng).encode() +
                     rng.choice([b' S new', b' B err 7', b' E done']))
    lines += [b'B tail undated']
    cur = t0 + timedelta(days=2)
    cons = [{'current': cur.strftime('%Y-%m-%d %H:%M:%S'), 'days': 1, 'matcher': 'std'}]
    defs = []
    for _ in range(nshare):
        d = gen.gen_simple_def(rng)
        d['cons'] = [0]
        defs.append(d)
    if rng.random() < 0.5:
        defs.append(gen.gen_simple_def(rng))           # an unconstrained neighbour
    return {'files': [{'name': 'f0.log', 'content': (b'\n'.join(lines) + b'\n').hex()}],
            'defs': defs, 'regs': [[i, 0, True] for i in range(len(defs))], 'constraints': cons,
            '_expanded': {'': [0], 'f*.log': [0]}}


def gen_scenario(rng, tier):
    if rng.random() < 0.01:
        return gen_long_undated(rng)
    kind = rng.choice(['std', 'std', 'multi', 'derived', 'subbrk', 'frac'])
    n = rng.choice([0, 1, 2, 4, 7, 12, 25, 50])
    content, times = K.gen_log(rng, n, kind, ordered=rng.random() < 0.4,
                               undated=rng.choice([0.1, 0.3, 0.6]), longs=0.1,
                               lookalike=0.1 if rng.random() < 0.3 else 0.0)
    ncons = rng.choice([1, 1, 2, 3])
    cons = []
    for _ in range(ncons):
        # (subbrk is a SUBCLASS of the std matcher with other patterns: each matcher class
        # reads lines by its own patterns whichever class was used first)
        ck = kind if rng.random() < 0.8 else rng.choice(['std', 'multi', 'derived', 'subbrk'])
        cons.append(K.gen_since(rng, times, ck))
    defs = []
    for _ in range(rng.choice([1, 2, 3, 5])):
        d = gen.gen_seq_def(rng) if rng.random() < 0.25 else gen.gen_simple_def(rng)
        r = rng.random()
        if r < 0.55:
            d['cons'] = [rng.randrange(ncons)]
        elif r < 0.7 and ncons > 1:
            d['cons'] = rng.sample(range(ncons), 2)
        defs.append(d)
    regs = []
    for i in range(len(defs)):
        # registered by file path, through the directory, or through a glob: the opt-out of
        # the file-level constraint concerns the FILE the search ends up registered on
        r = rng.random()
        regs.append([i, 0 if r < 0.7 else ('' if r < 0.85 else 'f*.log'), rng.random() < 0.85])
    scn = {'files': [{'name': 'f0.log', 'content': content.hex()}], 'defs': defs,
           'regs': regs, 'constraints': cons, '_expanded': {'': [0], 'f*.log': [0]}}
    if rng.random() < 0.4:
        scn['global'] = rng.randrange(ncons)
    if rng.random() < 0.2:
        scn['decode_errors'] = rng.choice(['ignore', 'replace', 'backslashreplace'])
    return scn


def eval_cases(rng, count, extra):
    fixed = extra.get('fixed')
    todo = fixed if fixed is not None else [None] * count
    out = []
    for item in todo:
        scn = item if item is not None else gen_scenario(rng, extra.get('tier', 'quick'))
        out.append({'scn': scn, 'impl': S.run_impl(scn)})
    return out


def signature(f):
    return f.get('sig')


def judge(rep, it, fm):
    scn, impl = it['scn'], it['impl']
    mobs = fm['mobs']
    item = {'scn': scn, 'impl': impl, 'vals': fm['vals'], 'case': fm['case']}
    model = T.model_view(item, mobs)
    spec = T.spec_simple_view(item, mobs)
    gates = {int(k): v for k, v in mobs.get('specGate', {}).items()}
    applies = S.global_applies(scn, 0)
    nontriv = any(g['activation'] not in (None, 0) for g in gates.values()) or \
        (scn.get('global') is not None and not applies)
    rep.note_case(scn, nontriv, sample={'scenario': scn})
    rep.count('global_applied' if applies else
              'global_restricted' if scn.get('global') is not None else 'no_global')
    if 'err' in impl or 'err' in model or fm['seek_err']:
        if impl.get('err') != (model.get('err') or fm['seek_err'] and 'fileSearch'):
            rep.fail('failing-input' if 'err' in impl else 'correspondence-broken', scn,
                     f"outcome: impl={impl.get('err', 'returned')} model={model}",
                     impl=impl, model=model)
        return
    irs = T.impl_results(item)
    by_tag = {}
    for r in irs:
        by_tag.setdefault(r['tag'], []).append(r)
    # spec layer: simple searches identified by a unique tag
    for tag, di in T.unique_tag_simple_defs(scn).items():
        d = scn['defs'][di]
        want = spec.get(di, [])
        hetero = False
        if d.get('cons'):
            g = gates[di]
            rep.count('gated_searches')
            a = g['activation']
            want = [] if a is None else [(ln, vs) for ln, vs in want if ln > a]
            hetero = not g['homogeneous']
            rep.count('hetero_sets' if hetero else 'homogeneous_sets')
        got = [(r['ln'], r['iter']) for r in by_tag.get(tag, [])]
        if got != [(ln, vs) for ln, vs in want]:
            kinds = {scn['constraints'][c].get('matcher', 'std') for c in d.get('cons', [])}
            sig = HETERO_SIG if (hetero and len(kinds) > 1) else None
            rep.fail('failing-input', scn,
                     f"search tagged {tag!r} (constraints {d.get('cons')}): reported "
                     f"{got[:5]}; prescribed from its first all-passing line: {want[:5]}",
                     impl=got, spec=want, sig=sig)
            if sig is None:
                return
    # spec layer: constrained sequence searches identified by a unique tag
    intern = S.Interner()
    intern.val = fm['vals']
    gated = {int(k): v for k, v in mobs.get('specSeqGated', {}).items()}
    for tag, di in T.unique_tag_seq_defs(scn).items():
        if di not in gated:
            continue
        want = sorted(([[tag + role, ln, [intern.back(v) for v in vs]] for role, ln, vs in sec]
                       for sec in gated[di]), key=repr)
        got = impl['sections'].get(tag, [])
        rep.count('gated_sequences')
        if got != want:
            rep.fail('failing-input', scn,
                     f"constrained sequence {tag!r}: reported sections {got[:3]}; the sections of "
                     f"reading the file from its first all-passing line on are {want[:3]}",
                     impl=got, spec=want)
            return
    diff = T.compare_results(irs, model['results'])
    if not diff and impl['stats']['lines'] != model['lines']:
        diff = f"lines_searched impl={impl['stats']['lines']} model={model['lines']}"
    if diff:
        rep.fail('correspondence-broken', scn, diff, impl=irs, model=model['results'])


def run(tier, seed, replay_case=None):
    rep = core.Report(PROP, tier, seed)
    core.lean_build()
    aud = core.audit(PROP)
    from vh import bridge
    bridge.check(rep, PROP)
    total = 1500 if tier == 'quick' else 15000
    items = []
    corpus = core.load_corpus(PROP) if replay_case is None else [replay_case]
    if corpus:
        items += eval_cases(None, 0, {'fixed': corpus})
    if replay_case is None:
        items += core.run_sharded(eval_cases, seed, total, {'tier': tier})
    drv = core.Driver()
    fms = T.full_model([it['scn'] for it in items], drv)
    # `FileSearcher.add` / `apply_global` as modelled in Lean (SkModel.Searcher, theorems
    # C07_global_*): the decision the expectations above are built on must be the model's
    gcases = []
    for it in items:
        scn = it['scn']
        exp = scn.get('_expanded', {})
        gcases.append({'kind': 'gapply', 'paths': ['f0.log'],
                       'ops': [{'search': r[0], 'agc': r[2] if len(r) > 2 else True,
                                'expanded': ['f0.log'] if isinstance(r[1], int) else
                                [scn['files'][k]['name'] for k in exp.get(r[1], [])]}
                               for r in scn['regs']]})
    for it, g in zip(items, drv.run(gcases)):
        want = (it['scn'].get('global') is not None) and g['model']['applies'][0]
        if want != S.global_applies(it['scn'], 0):
            raise core.Infra("SkModel.Searcher.globalApplies disagrees with the harness's "
                             f"global_applies on {it['scn']['regs']}")
    rep.count('global_decisions_checked_against_lean', len(items))
    for it, fm in zip(items, fms):
        judge(rep, it, fm)
    rep.assumptions = ["timestamp extraction is an oracle (Python re + datetime)",
                       "C07_gate_exact is proved for homogeneous constraint sets; for "
                       "sets mixing timestamp matchers see known_findings.json"]
    return rep.finish(aud, RULE, signature_fn=signature)
