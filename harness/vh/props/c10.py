"""
C10 — task failure or worker death: prompt exception, no hang, no leftovers.

Theorem side: lean/SkModel/Theorems/C10.lean (transition system with crash / raise
labels, lock ownership and joins: from every reachable state a final state is reachable,
a failed run ends in `raised` with the store lock free and the helper threads joined, a
following run returns).  Correspondence: fault ENUMERATION on the real code: every
distinguishable point of a worker's life x which of N files x worker count x
{abrupt exit, Python exception}; each plan runs in its own interpreter under a watchdog
(a hang is confirmed by a faulthandler stack dump) and is followed by a fresh run in the
same process.  The observed outcome is compared with the model's for the corresponding
schedule.
"""
import json
import os
import shutil
import signal
import subprocess
import sys
import tempfile
import time

from vh import core
from vh.faultrun import POINTS

PROP = 'C10'
RULE = ("plan = fault point (before opening the file, mid-file, before/after handing over "
        "the k-th batch, before/inside/after index allocation, before/inside/after store sync, "
        "after the last result) x file hit (first/middle/last of N) x workers in {2,4} x "
        "{os._exit, Python exception} x occurrence k, plus fault-free controls, plus task "
        "failures while the other tasks still hold more result batches than the (patched-down) "
        "results queue can take, plus failures in the calling process (one file) followed by "
        "runs that re-use the same search definitions; each followed "
        "by a second run in the same process; quick = a seeded sample of the plan space that "
        "always contains the in-lock crash points, thorough = the full enumeration x 3 seeds; "
        "non-trivial = the fault actually fired; distinct by plan")

BOUND = 40           # seconds for a plan that normally takes 3-5 s
# "within bounded time" is judged against wall-clock bounds, and a wall-clock bound means
# nothing without the speed of the machine: every run first times one fault-free plan
# (CAL_NOMINAL seconds on the machine the bounds were chosen on) and stretches the bounds by
# the ratio when the machine is slower - never shrinks them, and by at most CAL_MAX.
CAL_NOMINAL = 3.0
CAL_MAX = 6.0
SCALE = 1.0          # set by run() before the plan shards are forked


def bound():
    return int(BOUND * SCALE)


def plan_timeout():
    return int((BOUND * 2 + 20) * SCALE)
HERE = os.path.dirname(os.path.abspath(__file__))


def all_plans():
    plans = [{'kind': 'none', 'point': 'none', 'file': 0, 'workers': 2, 'nfiles': 3},
             {'kind': 'none', 'point': 'none', 'file': 0, 'workers': 4, 'nfiles': 6}]
    for workers, nfiles in ((2, 3), (4, 6)):
        for which in (0, nfiles // 2, nfiles - 1):
            for point in POINTS:
                for kind in ('exit', 'raise'):
                    if kind == 'raise' and point == 'after_last':
                        continue                 # outside any task code
                    ks = [1, 3] if point in ('mid_file', 'put_before', 'put_after') else [1]
                    for k in ks:
                        plans.append({'kind': kind, 'point': point, 'file': which, 'k': k,
                                      'workers': workers, 'nfiles': nfiles})
    # a worker that sits inside the lock across a poll of the info thread, then dies
    for point in ('alloc_inside', 'sync_inside'):
        for workers, nfiles in ((2, 3), (4, 6)):
            plans.append({'kind': 'exit', 'point': point, 'file': 0, 'k': 1, 'hold': 6,
                          'workers': workers, 'nfiles': nfiles})
    # a task fails while the OTHER tasks still have far more result batches to hand over
    # than the results queue holds (queue patched down to 3 slots): the collector has to
    # keep draining until the executor has shut down
    plans.append({'kind': 'none', 'point': 'none', 'file': 0, 'workers': 1, 'nfiles': 2,
                  'big': 400, 'queue_size': 3})
    plans.append({'kind': 'none', 'point': 'none', 'file': 0, 'workers': 2, 'nfiles': 3,
                  'big': 400, 'queue_size': 3})
    for workers, nfiles in ((1, 2), (2, 3)):
        for point in ('before_open', 'mid_file'):
            plans.append({'kind': 'raise', 'point': point, 'file': 0, 'k': 1, 'workers': workers,
                          'nfiles': nfiles, 'big': 400, 'queue_size': 3})
    # an I/O error (OSError) in the middle of a gzip-compressed file, lenient decoding: the
    # task has failed, whatever fallbacks the file-opening logic has
    for gz in (True, False):
        plans.append({'kind': 'none', 'point': 'none', 'file': 0, 'workers': 2, 'nfiles': 3,
                      'gz': gz, 'decode': 'ignore'})
        for workers, nfiles in ((2, 3),):
            for k in (1, 3):
                plans.append({'kind': 'raise', 'exc': 'OSError', 'point': 'mid_file', 'file': 0,
                              'k': k, 'workers': workers, 'nfiles': nfiles, 'gz': gz,
                              'decode': 'ignore'})
    # a task exception that cannot be pickled back to the parent
    for point in ('mid_file', 'put_before', 'sync_inside'):
        plans.append({'kind': 'raise', 'exc': 'unpicklable', 'point': point, 'file': 1, 'k': 1,
                      'workers': 2, 'nfiles': 3})
    # natural faults: a damaged gzip file among good ones (worker processes) or alone (in-process)
    for how in ('crc', 'trunc', 'junk'):
        for workers, nfiles in ((2, 3), (2, 1)):
            plans.append({'kind': 'corrupt', 'how': how, 'point': 'none', 'file': 0, 'k': 1,
                          'workers': workers, 'nfiles': nfiles, 'gz': True, 'decode': 'ignore'})
    plans.append({'kind': 'none', 'point': 'none', 'file': 0, 'workers': 2, 'nfiles': 1,
                  'gz': True, 'decode': 'ignore'})
    # a registered file that is gone (removed / a dangling symlink) by the time run() starts
    for how in ('removed', 'dangling'):
        for workers, nfiles, which in ((2, 3, 0), (2, 3, 1), (2, 1, 0)):
            plans.append({'kind': 'gone', 'how': how, 'point': 'none', 'file': which, 'k': 1,
                          'workers': workers, 'nfiles': nfiles})
    # a task failing in the CALLING process (single file, undecodable bytes inside an open
    # section), then runs re-using the same search definition objects (1 file / 2 files)
    for end in (True, False):
        for files2 in (1, 2):
            plans.append({'kind': 'inproc', 'point': 'decode', 'file': 0, 'workers': 2,
                          'nfiles': 1, 'end': end, 'files2': files2})
    return plans


def ckey(plan):
    """ plans with the same files (hence the same fault-free results) """
    return (plan['nfiles'], plan.get('big'),
            plan['file'] if plan.get('big') else 0, bool(plan.get('gz')), plan.get('decode'))


def run_plan(plan):
    tmp = tempfile.mkdtemp(prefix='vh-plan-')
    pf, rf = os.path.join(tmp, 'plan.json'), os.path.join(tmp, 'report.jsonl')
    with open(pf, 'w') as f:
        json.dump(plan, f)
    t0 = time.time()
    with open(os.path.join(tmp, 'out'), 'w') as o:
        proc = subprocess.Popen([sys.executable, '-m', 'vh.faultrun', pf, rf], stdout=o,
                                stderr=o, start_new_session=True,
                                cwd=os.path.dirname(os.path.dirname(HERE)),
                                env=dict(os.environ, PYTHONDONTWRITEBYTECODE='1',
                                         PYTHONPATH=os.path.dirname(os.path.dirname(HERE))))
        try:
            proc.wait(timeout=plan_timeout())
            hung = False
        except subprocess.TimeoutExpired:
            hung = True
        try:
            os.killpg(proc.pid, signal.SIGKILL)
        except (ProcessLookupError, PermissionError):
            pass
        proc.wait()
    rep = {}
    if os.path.exists(rf):
        with open(rf) as f:
            for line in f:
                e = json.loads(line)
                rep[e.pop('stage')] = e
    stacks = ''
    if os.path.exists(rf + '.stacks'):
        with open(rf + '.stacks') as f:
            stacks = f.read()[-3000:]
    tail = ''
    with open(os.path.join(tmp, 'out')) as f:
        tail = f.read()[-600:]
    # clean temp dirs of the child
    shutil.rmtree(tmp, ignore_errors=True)
    for d in os.listdir(tempfile.gettempdir()):
        if d.startswith('vh-fault-'):
            p = os.path.join(tempfile.gettempdir(), d)
            try:
                if time.time() - os.path.getmtime(p) > 600:
                    shutil.rmtree(p, ignore_errors=True)
            except OSError:
                pass
    return {'report': rep, 'hung': hung, 'wall': round(time.time() - t0, 1),
            'stacks': stacks if hung else '', 'tail': tail if 'end' not in rep else ''}


def eval_plans(rng, count, extra):
    plans = extra['plans']
    mine = plans[extra['offset']::extra['stride']] if 'stride' in extra else plans
    return [{'plan': p, 'impl': run_plan(p)} for p in mine]


def _shard(rng, count, extra):
    # run_sharded gives each shard (rng, count); we want a deterministic partition
    idx = extra['_idx'].pop(0) if False else None
    return eval_plans(rng, count, extra)


def schedule_for(plan):
    """ the model schedule corresponding to a plan (worker 0 is the one that is hit) """
    n = plan['workers']
    if plan['kind'] == 'none':
        ls = []
        for w in range(n):
            ls += [['start', w], ['wantAlloc', w], ['acqAlloc', w], ['relAlloc', w],
                   ['wantSync', w], ['acqSync', w], ['relSync', w]]
        return ls + [['mainAllDone', 0], ['joinResults', 0], ['joinInfo', 0], ['teardown', 0]]
    pre = [['start', 0]]
    held = False
    if plan['point'] == 'alloc_inside':
        pre += [['wantAlloc', 0], ['acqAlloc', 0]]
        held = True
    elif plan['point'] == 'sync_inside':
        pre += [['wantAlloc', 0], ['acqAlloc', 0], ['relAlloc', 0], ['wantSync', 0], ['acqSync', 0]]
        held = True
    elif plan['point'] in ('alloc_after', 'sync_before', 'put_before', 'put_after'):
        pre += [['wantAlloc', 0], ['acqAlloc', 0], ['relAlloc', 0]]
    if plan['kind'] == 'exit':
        ls = pre + [['infoWant', 0], ['crash', 0], ['killAll', 0], ['mainSeesBroken', 0]]
        ls += [['mainReclaim', 0]] if held else [['mainAcquire', 0], ['mainRelease', 0]]
        return ls + [['joinResults', 0], ['infoAcq', 0], ['infoRel', 0], ['joinInfo', 0],
                     ['teardown', 0]]
    ls = pre + [['raise', 0], ['mainSeesFailure', 0]]
    for w in range(1, n):
        ls += [['start', w], ['wantAlloc', w], ['acqAlloc', w], ['relAlloc', w],
               ['wantSync', w], ['acqSync', w], ['relSync', w]]
    return ls + [['mainAllDone', 0], ['joinResults', 0], ['joinInfo', 0], ['teardown', 0]]


def judge(rep, item, mo, control):
    plan, impl = item['plan'], item['impl']
    r = impl['report']
    run1 = r.get('run1', {})
    rep.evaluations += 1
    if run1.get('fired') or plan['kind'] == 'none':
        rep.nontrivial.add(core.digest(plan))
    if len(rep.samples) < 3:
        rep.samples.append({'plan': plan, 'run1': run1, 'run2': r.get('run2')})
    rep.count('kind_' + plan['kind'])
    rep.count('point_' + plan['point'])
    # how far this machine is from the wall-clock bounds the verdicts use (BOUND for a failure
    # to surface, 2*BOUND+20 for a whole plan): the margin is part of the evidence
    rep.extra['slowest_plan_wall_s'] = max(rep.extra.get('slowest_plan_wall_s', 0), impl['wall'])
    rep.extra['slowest_raise_latency_s'] = max(rep.extra.get('slowest_raise_latency_s', 0),
                                               run1.get('latency', 0) if run1.get('fired') else 0)
    rep.extra['bounds_s'] = {'raise_latency': bound(), 'whole_plan': plan_timeout()}
    name = f"{plan['kind']}@{plan['point']} file {plan['file']}/{plan['nfiles']} " \
           f"workers {plan['workers']} k={plan.get('k', 1)}" + \
           (f" hold={plan['hold']}s" if plan.get('hold') else '') + \
           (f" other files {plan['big']} lines, results queue of {plan['queue_size']}"
            if plan.get('big') else '') + \
           (f" damaged gzip ({plan['how']})" if plan['kind'] == 'corrupt' else '') + \
           (f" file {plan['how']} between add() and run()" if plan['kind'] == 'gone' else '') + \
           (" (unpicklable exception object)" if plan.get('exc') == 'unpicklable' else '') + \
           (f" {'gzip' if plan.get('gz') else 'plain'} files, {plan.get('exc', 'exception')}, "
            f"decode_errors={plan['decode']}" if plan.get('decode') else '')
    if 'start' not in r:
        raise core.Infra(f"fault plan did not start: {impl['tail']}")

    def fail(what, kind='failing-input'):
        rep.fail(kind, plan, f"{name}: {what}", impl={k: v for k, v in impl.items()
                                                       if k != 'tail'}, model=mo)

    if 'run1' not in r:
        return fail("run() did not come back within %d s (stack dump in the replay file)"
                    % plan_timeout())
    if plan['kind'] == 'inproc':
        rep.count('in_process_failures')
        lo, run2 = r.get('leftovers1'), r.get('run2')
        if run1['outcome'] not in ('FileSearchException', 'UnicodeDecodeError'):
            return fail(f"run() {run1['outcome']} on undecodable input under strict decoding")
        if lo is None or run2 is None:
            return fail("process stuck after the failed run")
        if lo['children'] or lo['threads'] or not lo['store_lock_free']:
            return fail(f"the failed run left behind {lo}")
        if run2['outcome'] != 'returned' or run2['per_path'] != run2['fresh_defs']:
            return fail("the following run in the same process, re-using the search definitions "
                        f"of the failed run, gave {run2.get('per_path', run2['outcome'])}; with "
                        f"fresh definition objects: {run2.get('fresh_defs')}")
        return
    faulted = plan['kind'] != 'none' and run1.get('fired')
    if plan['kind'] != 'none' and not run1.get('fired'):
        rep.count('fault_not_reached')
        faulted = False
    if faulted:
        if run1['outcome'] not in ('FileSearchException', 'UnicodeDecodeError'):
            return fail(f"run() {'returned partial results' if run1['outcome'] == 'returned' else 'raised ' + run1['outcome']} "
                        "instead of FileSearchException")
        if run1['latency'] > bound():
            return fail(f"run() took {run1['latency']} s to raise")
    else:
        if run1['outcome'] != 'returned' or (control and run1.get('n') != control['n']):
            return fail(f"fault-free run: {run1}")
    lo = r.get('leftovers1')
    if lo is None:
        return fail("process stuck after run() (stack dump in the replay file)")
    if lo['children'] or lo['threads']:
        return fail(f"left behind processes {lo['children']} / threads {lo['threads']}")
    if not lo['store_lock_free'] or not lo['collection_lock_free']:
        return fail("a module-level lock is still held after run() raised")
    run2 = r.get('run2')
    if run2 is None:
        return fail("the following run in the same process never finished (stack dump in "
                    "the replay file)")
    if run2['outcome'] != 'returned' or (control and (run2['n'] != control['n'] or
                                                     run2['per_path'] != control['per_path'])):
        return fail(f"the following run in the same process gave {run2}, expected "
                    f"{control}")
    lo2 = r.get('leftovers2', {})
    if lo2.get('children') or lo2.get('threads'):
        return fail(f"second run left behind {lo2}")
    # model
    m = mo['model']
    want_main = 'raised' if faulted else 'returned'
    sched_main = 'raised' if plan['kind'] != 'none' else 'returned'
    if not m['valid'] or not m['final'] or m['main'] != sched_main or not m['lockFree'] \
            or not m['infoStopped'] or not m['resultsJoined'] or not m['quiet']:
        return fail(f"model schedule for this plan does not end as the implementation did: {m}",
                    kind='correspondence-broken')
    if faulted and want_main != m['main']:
        return fail(f"impl {want_main} vs model {m['main']}", kind='correspondence-broken')
    rep.traces_validated += 1


def run(tier, seed, replay_case=None):
    rep = core.Report(PROP, tier, seed)
    core.lean_build()
    aud = core.audit(PROP)
    plans = all_plans()
    if replay_case is not None:
        chosen = [next((p for p in plans if p['kind'] == 'none' and ckey(p) == ckey(replay_case)),
                       plans[0]), replay_case]
    elif tier == 'quick':
        import random
        rng = random.Random(seed)
        must = [p for p in plans if p['kind'] == 'exit' and p['workers'] == 2 and p['file'] == 0
                and p['point'] in ('alloc_inside', 'sync_inside', 'alloc_before', 'before_open')]
        # (includes the two hold=6 plans for 2 workers)
        must += [p for p in plans if p['kind'] == 'raise' and p['workers'] == 2 and p['file'] == 1
                 and p['point'] in ('mid_file', 'sync_inside', 'before_open')]
        must += [p for p in plans if p.get('big') and p['workers'] == 1
                 and p['point'] in ('none', 'before_open')]
        must += [p for p in plans if p['kind'] == 'inproc']
        must += [p for p in plans if p.get('exc') == 'unpicklable' and p['point'] == 'mid_file']
        must += [p for p in plans if p['kind'] == 'corrupt' and
                 (p['how'], p['nfiles']) in (('crc', 3), ('trunc', 1))]
        must += [p for p in plans if p['kind'] == 'none' and p.get('gz') and p['nfiles'] == 1]
        must += [p for p in plans if p['kind'] == 'gone' and
                 (p['how'], p['nfiles'], p['file']) in (('removed', 3, 0), ('dangling', 1, 0))]
        must += [p for p in plans if p.get('decode') and p.get('gz') and
                 (p['kind'] == 'none' or (p['k'] == 3 and p['workers'] == 2))]
        rest = [p for p in plans[2:] if p not in must]
        chosen = plans[:2] + must + rng.sample(rest, 28)
    else:
        chosen = plans * 1
    global SCALE  # pylint: disable=global-statement
    cal = run_plan(plans[0])
    SCALE = CAL_MAX if cal['hung'] else min(CAL_MAX, max(1.0, cal['wall'] / CAL_NOMINAL))
    rep.extra['calibration'] = {'plan': plans[0], 'wall_s': cal['wall'],
                                'nominal_s': CAL_NOMINAL, 'bounds_stretched_by': round(SCALE, 2)}
    nsh = min(core.NCPU // 2, len(chosen))
    import concurrent.futures
    import multiprocessing
    ctx = multiprocessing.get_context('fork')
    with concurrent.futures.ProcessPoolExecutor(max_workers=nsh, mp_context=ctx) as ex:
        futs = [ex.submit(eval_plans, None, 0, {'plans': chosen, 'offset': i, 'stride': nsh})
                for i in range(nsh)]
        items = [it for f in futs for it in f.result()]
    mobs = core.Driver().run([{'kind': 'fault', 'n': it['plan']['workers'],
                               'labels': schedule_for(it['plan'])} for it in items])
    controls = {}
    for it in items:
        if it['plan']['kind'] == 'none':
            r1 = it['impl']['report'].get('run2') or {}
            controls[ckey(it['plan'])] = {'n': r1.get('n'), 'per_path': r1.get('per_path')}
    for it, mo in zip(items, mobs):
        judge(rep, it, mo, controls.get(ckey(it['plan'])))
    rep.assumptions = ["a dead worker breaks the pool; a broken pool terminates all workers; "
                       "executor shutdown reaps them (ProcessPoolExecutor behaviour, observed, "
                       "not modelled)", "detection latency is only bounded by a generous "
                       "watchdog (%d s on the reference machine, stretched by the measured speed "
                       "of this one: %d s in this run)" % (BOUND, bound()),
                       "the info thread holds the store lock only briefly"]
    return rep.finish(aud, RULE)
