"""
C13 — content alone cannot make a search fail or hang; the decode policy is honoured.

Theorem side: lean/SkModel/Theorems/C13.lean (`C13_task_outcome`, `C13_file_outcome`:
the only error reachable from content is UnicodeDecodeError, exactly when a searched
line does not decode; totality is by construction), with `seek_no_assert` for the
seeker.  Correspondence: a malformed content stream (random bytes, NUL/CR, lone
continuation bytes, truncated multi-byte sequences at line and 64-byte window
boundaries, look-alike timestamps, 0- and 1-byte lines, no final LF) x the four decode
policies x with/without file-level and per-search since constraints; observed outcome
kind, results, and the per-case watchdog (core.time_limit: no sign of life past the nominal
limit, or a CPU / wall-clock backstop) as the hang detector.
"""
from vh import core, gen, scenario as S, seekcheck as K, taskcheck as T

PROP = 'C13'
RULE = ("case = byte content from the malformed stream (starting with the gzip magic number only in the form gzip itself refuses: unknown method) "
        "x decode_errors in {None, ignore, replace, backslashreplace} x 1..4 simple/sequence "
        "searches x with/without file-level since constraint x with/without per-search "
        "constraints; thorough adds multi-MiB single-line files; non-trivial = the content "
        "has an invalid UTF-8 sequence or a look-alike timestamp and >= 2 lines; distinct by "
        "scenario hash")

LOOKALIKE = [b'2023-02-30 00:00:00 x', b'0000-00-00 00:00:00', b'2023-13-01 25:61:61 y',
             b'2023-01-01 1', b'2023-01-01', b'9999-99-99 99:99:99', b'2023-00-10 00:00:00',
             b'[31/02/2023 00:00:00] z', b'13/32/23 00:00:00 w', b'2023-01-01 24:00:00 late',
             b'2023-01-01T00:00:60', b'2023-01-01 00:00:99999999999999999999 big',
             b'2023-01-01 00:00:61', b'2023-01-01 00:00:5']


def gen_content(rng, tier):
    r = rng.random()
    if r < 0.1:
        n = rng.choice([0, 1, 2, 5, 64, 65, 255, 256, 257, 1000])
        data = bytes(rng.randrange(256) for _ in range(n))
    else:
        lines = []
        times = gen.gen_times(rng, rng.choice([1, 3, 8, 20]), ordered=rng.random() < 0.6)
        from vh import matchers
        for t in times:
            q = rng.random()
            if q < 0.35:
                ln = matchers.fmt_ts('std', t, rng).encode() + b' ' + gen.words_line(rng)
            elif q < 0.55:
                ln = rng.choice(LOOKALIKE) + b' ' + gen.words_line(rng)
            elif q < 0.65:
                ln = rng.choice([b'', b'x', b'\r', b'\x00'])
            else:
                ln = gen.words_line(rng)
            if rng.random() < 0.35:
                pos = rng.choice([0, len(ln), rng.randrange(len(ln) + 1),
                                  min(len(ln), 63), min(len(ln), 64)])
                ln = ln[:pos] + rng.choice(gen.MALFORMED) + ln[pos:]
            if rng.random() < 0.15:
                ln = gen.pad_to(rng, ln, rng.choice([62, 63, 64, 65, 255, 256, 257, 600]))
                if rng.random() < 0.5:
                    ln = ln[:-1] + rng.choice([b'\xc3', b'\xe2', b'\xf0'])   # truncated at the end
            lines.append(ln)
        data = gen.assemble(rng, lines)
    if data[:2] == b'\x1f\x8b':
        data = b'x' + data
    if rng.random() < 0.03:
        data = gen.magic_prefixed(rng, data)      # plain text behind the gzip magic number
    return data


def gen_scenario(rng, tier, big=False):
    if big:
        data = (rng.choice([b'', b'2023-01-01 00:00:00 ']) +
                rng.choice([b'x', b'\xff', b'ab ']) * rng.choice([400000, 1100000]) +
                rng.choice([b'', b'\n', b'\nend\n']))
        data = data[:3 * 1024 * 1024]
    else:
        data = gen_content(rng, tier)
    defs = []
    for _ in range(rng.choice([1, 2, 3, 4])):
        d = gen.gen_seq_def(rng) if rng.random() < 0.25 else gen.gen_simple_def(rng)
        defs.append(d)
    files = [{'name': 'f0.log', 'content': data.hex()}]
    if not big and rng.random() < 0.04:
        # two files: the searches run in worker processes, which must decode by the same policy
        files.append({'name': 'f1.log', 'content': gen_content(rng, tier).hex()})
    scn = {'files': files, 'defs': defs,
           'regs': [[i, k] for i in range(len(defs)) for k in range(len(files))],
           'decode_errors': rng.choice([None, None, 'ignore', 'replace', 'backslashreplace',
                                          'surrogateescape'])}
    if scn['decode_errors'] is None:
        del scn['decode_errors']
    if rng.random() < 0.6:
        cons = [K.gen_since(rng, [gen.BASE], rng.choice(['std', 'loose', 'loose', 'multi', 'derived']))
                for _ in range(rng.choice([1, 2]))]
        scn['constraints'] = cons
        if rng.random() < 0.6:
            scn['global'] = 0
        for d in defs:
            if rng.random() < 0.4:
                d['cons'] = [rng.randrange(len(cons))]
    return scn


def eval_cases(rng, count, extra):
    fixed = extra.get('fixed')
    todo = fixed if fixed is not None else [None] * count
    out = []
    for item in todo:
        scn = item if item is not None else gen_scenario(rng, extra.get('tier', 'quick'),
                                                         extra.get('big', False))
        out.append({'scn': scn, 'impl': S.run_impl(scn)})
    return out


def run(tier, seed, replay_case=None):
    rep = core.Report(PROP, tier, seed)
    core.lean_build()
    aud = core.audit(PROP)
    from vh import bridge
    bridge.check(rep, PROP)
    total, nbig = (2000, 0) if tier == 'quick' else (30000, 12)
    items = []
    corpus = core.load_corpus(PROP) if replay_case is None else [replay_case]
    if corpus:
        items += eval_cases(None, 0, {'fixed': corpus})
    if replay_case is None:
        items += core.run_sharded(eval_cases, seed, total, {'tier': tier})
        if nbig:
            items += core.run_sharded(eval_cases, seed + 5, nbig, {'tier': tier, 'big': True})
        # a file of MANY lines (the task's progress branch at every 100000th line): very short
        # lines, a few of them not valid UTF-8, lenient decoding; content alone must not fail it
        many = (b'a\n' * 60000 + b'\xff x\n' + b'\n' * 39999 + b'b c\n' * 1000 + b'end')
        items += core.run_sharded(eval_cases, seed + 9, 1, {'tier': tier, 'fixed': [{
            'files': [{'name': 'f0.log', 'content': many.hex()}],
            'defs': [{'type': 'simple', 'pats': [r'(b) (c)'], 'tag': 't1', 'store': True}],
            'regs': [[0, 0]], 'decode_errors': 'replace'}]}, shards=1, workers=1)
        rep.count('many_lines_files')
    drv = core.Driver()
    mruns = T.run_models([it['scn'] for it in items], drv)
    for it, mr in zip(items, mruns):
        scn, impl = it['scn'], it['impl']
        data = b'\n'.join(S.file_bytes(f) for f in scn['files'])
        if len(scn['files']) > 1:
            rep.count('multi_file_runs')
        try:
            data.decode('utf-8')
            bad_utf8 = False
        except UnicodeDecodeError:
            bad_utf8 = True
        look = any(x in data for x in LOOKALIKE)
        rep.note_case(scn, (bad_utf8 or look) and data.count(b'\n') >= 1,
                      sample={'content_head': data[:80].hex(),
                              'decode_errors': scn.get('decode_errors'),
                              'outcome': impl.get('err', 'returned')})
        rep.count('policy_' + str(scn.get('decode_errors')))
        rep.count('outcome_' + impl.get('err', 'returned'))
        if bad_utf8:
            rep.count('invalid_utf8_contents')
        lenient = scn.get('decode_errors') is not None
        err = impl.get('err')
        # the property itself
        if err is not None and (lenient or err != 'unicodeDecode'):
            rep.fail('failing-input', scn,
                     f"run() {'did not return' if err.startswith('hang') else 'raised ' + err} "
                     f"with decode_errors={scn.get('decode_errors')!r} on content "
                     f"{data[:60]!r}…", impl=impl)
            continue
        if not lenient:
            want = 'errs' in mr and 'unicodeDecode' in mr['errs']
            if (err == 'unicodeDecode') != want:
                rep.fail('failing-input', scn,
                         f"strict decoding: run() {'raised' if err else 'returned'} but "
                         f"{'some' if want else 'no'} searched line is invalid UTF-8",
                         impl=impl, spec=mr.get('errs'))
                continue
        T.judge_run(rep, scn, impl, mr)
    rep.assumptions = ["CPython re run time on the pool's patterns (a pathological *pattern* "
                       "could be exponential; the claim is about content)",
                       "hang detector: a run is reported as not terminating when, after %d s, it "
                       "shows no sign of life for a quarter of that time (no results handed over, "
                       "< 5 %% of a core used) or has consumed %d CPU-seconds / %d s of wall-clock "
                       "time (core.time_limit)" % (core.SINGLE_LIMIT,
                                                   core.CPU_FACTOR * core.SINGLE_LIMIT,
                                                   core.HARD_FACTOR * core.SINGLE_LIMIT)]
    return rep.finish(aud, RULE)
