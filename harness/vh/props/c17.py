"""
C17 — run statistics describe exactly the run that just finished.

Theorem side: lean/SkModel/Theorems/C17.lean (`C17_stats_exact`) with C01/C04/C08.
Correspondence: `FileSearcher.stats` after run() on single- and multi-file scenarios
(empty files, files fully skipped by a constraint, filtered incomplete sections,
duplicate registrations) and after a REPEATED run of the same searcher.
"""
import os
import shutil
import tempfile

from vh import core, gen, scenario as S, taskcheck as T
from vh.props import c02

PROP = 'C17'
RULE = ("scenario = 1..4 files (some empty, some fully skipped by a file-level since "
        "constraint) x 1..4 simple/sequence searches registered on subsets (duplicates "
        "included); single-file in-process and multi-file multi-process; 40% of the cases run "
        "the same searcher twice; one file of exactly 100000 lines (more sizes around the 100000-line progress period in "
        "thorough); a few multi-process runs with the results queue patched down "
        "to 2..4 slots so that workers cross put_result's queue-full retry path; non-trivial = results > 0, lines_searched > 0 and (>= 2 "
        "files or a second run); distinct by scenario hash")


def gen_scenario(rng, tier, multi):
    nfiles = rng.choice([2, 3, 4]) if multi else 1
    scn = gen.gen_run_scenario(rng, tier, nfiles=nfiles)
    scn['_twice'] = rng.random() < 0.4
    if rng.random() < 0.15:
        scn['_spell'] = rng.choice(['//', '/./'])
    if scn['_twice'] and rng.random() < 0.5:
        # between the two runs another search is registered on the same searcher
        extra = gen.gen_simple_def(rng) if rng.random() < 0.7 else gen.gen_seq_def(rng)
        scn['defs'].append(extra)
        scn['_late_regs'] = [[len(scn['defs']) - 1, rng.randrange(nfiles)]
                             for _ in range(rng.choice([1, 1, 2]))]
    return scn


def big_scenario(nlines, multi):
    """ a file with exactly `nlines` lines (the progress-report period of _run_search is
    100000 lines): lines_searched must still be exact """
    body = [b'x'] * nlines
    for k in (0, nlines // 2, nlines - 1):
        body[k] = b'err %d' % k
    files = [{'name': 'big.log', 'content': (b'\n'.join(body) + b'\n').hex()}]
    if multi:
        files.append({'name': 'small.log', 'content': b'err 1\nx\n'.hex()})
    return {'files': files, 'defs': [{'type': 'simple', 'pats': [r'err (\d+)'], 'tag': 't1',
                                      'store': True}],
            'regs': [[0, k] for k in range(len(files))], '_twice': False}


def empty_run():
    """ a searcher whose registrations denote no file at all (empty directory, glob without
    match): run() returns an empty collection and all-zero statistics """
    core.import_searchkit()
    from searchkit import FileSearcher, SearchDef
    tmpdir = tempfile.mkdtemp(prefix='vh-')
    try:
        os.mkdir(os.path.join(tmpdir, 'empty'))
        out = []
        for targets in ([], ['empty'], ['no*match'], ['empty', 'none.*']):
            fs = FileSearcher()
            for t in targets:
                fs.add(SearchDef(r'.*', tag='t'), os.path.join(tmpdir, t))
            try:
                res = fs.run()
                out.append({'targets': targets, 'len': len(res), 'files': len(fs.files),
                            'stats': {k: fs.stats[k] for k in
                                      ('searches', 'searches_by_job', 'lines_searched',
                                       'jobs_completed', 'total_jobs', 'results')}})
            except Exception as e:  # pylint: disable=broad-except
                out.append({'targets': targets, 'err': type(e).__name__})
        return out
    finally:
        shutil.rmtree(tmpdir, ignore_errors=True)


def run_impl(scn):
    tmpdir = tempfile.mkdtemp(prefix='vh-')
    try:
        built = S.Built(scn, tmpdir)
        fs = built.searcher()
        K = S.scenario_K(scn)
        first = S.run_searcher(built, fs, K)
        second = None
        if scn.get('_twice'):
            for di, fi in scn.get('_late_regs', []):
                fs.add(built.defs[di], tmpdir + scn.get('_spell', '/') + scn['files'][fi]['name'])
            second = S.run_searcher(built, fs, K)
        return {'first': first, 'second': second}
    finally:
        shutil.rmtree(tmpdir, ignore_errors=True)


def eval_damaged(rng, count, extra):
    import gzip
    fixed = extra.get('fixed')
    out = []
    for item in (fixed if fixed is not None else [None] * count):
        if item is not None:
            scn = item
        else:
            scn = gen.gen_run_scenario(rng, extra.get('tier', 'quick'),
                                       nfiles=rng.choice([1, 2, 3]), lines=200, constraint=0.0,
                                       empty=0.0)
            k = rng.randrange(len(scn['files']))
            body = bytes.fromhex(scn['files'][k]['content'])
            z = gzip.compress(body, mtime=0)
            scn['files'][k]['content'] = z[:max(20, int(len(z) * rng.choice([0.4, 0.7, 0.95])))].hex()
            scn['_damaged_gzip'] = k
            scn.pop('decode_errors', None)
        out.append({'scn': scn, 'obs': S.run_impl(scn)})
    return out


def eval_cases(rng, count, extra):
    fixed = extra.get('fixed')
    todo = fixed if fixed is not None else [None] * count
    out = []
    for item in todo:
        if item is None and extra.get('deepq'):
            scn = c02.gen_deepq_scenario(rng, extra.get('tier', 'quick'))
        else:
            scn = item if item is not None else gen_scenario(rng, extra.get('tier', 'quick'),
                                                             extra.get('multi', False))
        if scn.get('_sleep_scale'):
            # a run whose workers meet a FULL results queue in the middle of a flush
            # (put_result's retry / back-off path), driven by C02's instrumented runner
            obs = c02.run_mp(scn)
            qfull = obs.get('qfull', 0)
            obs = {k: v for k, v in obs.items() if k not in ('events', 'consts', 'qfull')}
            out.append({'scn': scn, 'impl': {'first': obs, 'second': None}, 'qfull': qfull})
            continue
        out.append({'scn': scn, 'impl': run_impl(scn)})
    return out


def direct_check(scn, obs, which):
    """ the parts of the property that need no model """
    if 'err' in obs:
        return None
    st = obs['stats']
    order, nregs = T.catalog_order(scn)
    nres = sum(len(v) for v in obs['paths'].values())
    if st['results'] != nres or obs['len'] != nres:
        return (f"{which} run: stats results={st['results']}, len(collection)={obs['len']}, "
                f"results in the collection={nres}")
    if st['searches'] != sum(nregs.values()) or \
            st['searches_by_job'] != [nregs[f] for f in order]:
        return (f"{which} run: searches={st['searches']} searches_by_job="
                f"{st['searches_by_job']} but registrations per file are "
                f"{[nregs[f] for f in order]}")
    n = len(order)
    want = n if n > 1 else 1
    if st['jobs_completed'] != want or st['total_jobs'] != want:
        return (f"{which} run: jobs_completed={st['jobs_completed']} total_jobs="
                f"{st['total_jobs']} for {n} files")
    return None


def second_scn(scn):
    """ the registrations in force at the second run """
    s2 = dict(scn)
    s2['regs'] = scn['regs'] + scn.get('_late_regs', [])
    return s2


def judge(rep, item, mrun, mrun2=None):
    scn, impl = item['scn'], item['impl']
    first, second = impl['first'], impl['second']
    nontriv = ('err' not in first and first['stats']['results'] > 0 and
               first['stats']['lines'] > 0 and (len(scn['files']) > 1 or second is not None))
    rep.note_case(scn, nontriv, sample={'scenario': scn, 'stats': first.get('stats')})
    rep.count('multi_file' if len(scn['files']) > 1 else 'single_file')
    if second is not None:
        rep.count('second_runs')
    if scn.get('_sleep_scale'):
        rep.count('queue_full_runs')
        rep.count('queue_full_events', item.get('qfull', 0))
    for which, obs in (('first', first), ('second', second)):
        if obs is None:
            continue
        bad = direct_check(scn if which == 'first' else second_scn(scn), obs, which)
        if bad:
            rep.fail('failing-input', scn, bad, impl=obs.get('stats'))
            return
    if second is not None and scn.get('_late_regs'):
        rep.count('add_between_runs')
        diff2 = T.compare_run(second_scn(scn), second, mrun2)
        if diff2:
            kind = 'failing-input' if diff2.startswith('stats[') else 'correspondence-broken'
            rep.fail(kind, scn, "second run (after registering another search): " + diff2,
                     impl=second, model=mrun2)
            return
    elif second is not None and S.pub(second) != S.pub(first):
        a = first.get('stats', first)
        b = second.get('stats', second)
        rep.fail('failing-input', scn,
                 f"second run of the same searcher differs from the first: {a} vs {b}",
                 impl=second, spec=first)
        return
    diff = T.compare_run(scn, first, mrun)
    if diff:
        # lines_searched is part of the property: a mismatch with the prescribed count
        kind = 'failing-input' if diff.startswith('stats[lines]') else 'correspondence-broken'
        rep.fail(kind, scn, diff, impl=first, model=mrun)


def run(tier, seed, replay_case=None):
    rep = core.Report(PROP, tier, seed)
    core.lean_build()
    aud = core.audit(PROP)
    n_single, n_multi = (400, 15) if tier == 'quick' else (5000, 200)
    items = []
    is_empty = replay_case is not None and ('empty_catalog' in replay_case or
                                            '_damaged_gzip' in replay_case)
    corpus = core.load_corpus(PROP) if replay_case is None else ([] if is_empty else [replay_case])
    if corpus:
        items += eval_cases(None, 0, {'fixed': corpus})
    if replay_case is None:
        items += core.run_sharded(eval_cases, seed, n_single, {'tier': tier})
        items += core.run_sharded(eval_cases, seed + 1, n_multi, {'tier': tier, 'multi': True},
                                  shards=min(core.NCPU, n_multi))
        bigs = [(100000, False)] if tier == 'quick' else \
            [(99999, False), (100000, False), (100001, True), (200000, False), (250000, True)]
        items += eval_cases(None, 0, {'fixed': [big_scenario(n, m) for n, m in bigs]})
        ndq = 4 if tier == 'quick' else 40
        items += core.run_sharded(eval_cases, seed + 2, ndq, {'tier': tier, 'deepq': True},
                                  shards=min(4, ndq), workers=4)
    if replay_case is None or is_empty:
        for e in core.run_sharded(lambda _r, _c, _x: empty_run(), seed, 1, shards=1, workers=2):
            rep.evaluations += 1
            rep.count('empty_catalog_runs')
            want = {'searches': 0, 'searches_by_job': [], 'lines_searched': 0,
                    'jobs_completed': 0, 'total_jobs': 0, 'results': 0}
            if e.get('err') or e['len'] != 0 or e['files'] != 0 or e['stats'] != want:
                rep.fail('failing-input', {'empty_catalog': e['targets']},
                         f"registrations {e['targets']} denote no file: run() gave {e}; "
                         f"expected an empty collection and {want}", impl=e, spec=want)
    if replay_case is None or replay_case.get('_damaged_gzip'):
        # a gzip file cut short in the middle (still being written when it was collected): the
        # unchanged code raises; whatever a run that RETURNS says must still be about that run
        dam = core.run_sharded(eval_damaged, seed + 11, 6, {'tier': tier}, shards=3) \
            if replay_case is None else eval_damaged(None, 0, {'fixed': [replay_case]})
        for d in dam:
            rep.count('damaged_gzip_runs')
            rep.count('damaged_gzip_runs_returned', 0 if 'err' in d['obs'] else 1)
            bad = direct_check(d['scn'], d['obs'], 'damaged-gzip')
            if bad:
                rep.fail('failing-input', d['scn'], bad, impl=d['obs'].get('stats'))
    drv = core.Driver()
    mruns = T.run_models([it['scn'] for it in items], drv)
    late = [i for i, it in enumerate(items) if it['scn'].get('_late_regs') and it['scn'].get('_twice')]
    mruns2 = dict(zip(late, T.run_models([second_scn(items[i]['scn']) for i in late], drv)))
    for i, (it, mr) in enumerate(zip(items, mruns)):
        judge(rep, it, mr, mruns2.get(i))
    rep.assumptions = ["lines actually read = lines of the content from the position the "
                       "seeker model computes (C04/C11)"]
    return rep.finish(aud, RULE)
