"""
C18 — worker parallelism never exceeds min(max_parallel_tasks, CPUs, files).

Theorem side: lean/SkModel/Theorems/C18.lean (arithmetic bound; pool transition system:
every task executed exactly once by one of <= n workers, for every schedule).
Correspondence: `num_parallel_tasks` exhaustively for max_parallel_tasks 0..32 x 0..64
files x CPU counts {1,2,4,16,64}; real runs with `SearchTask.execute` wrapped to record
(pid, path): the set of worker pids, each path exactly once, single file in the caller;
a witness schedule built from the per-worker task orders is validated against the pool
model by the Lean driver.
"""
import os
import shutil
import tempfile
import time
from unittest import mock

from vh import core, gen, scenario as S, taskcheck as T

PROP = 'C18'
RULE = ("exhaustive table: max_parallel_tasks 0..32 x files 0..64 x cpu_count in "
        "{1,2,4,16,64} (10 725 configurations, all non-trivial and distinct); plus real runs: "
        "1..12 files x max_parallel_tasks in {0,1,2,3,4,8,16} with every execute() recorded "
        "as (pid, path, t0, t1)")

MS = list(range(0, 33))
FILES = list(range(0, 65))
CPUS = [1, 2, 4, 16, 64]


def impl_table():
    core.import_searchkit()
    from searchkit import FileSearcher, SearchDef
    tmpdir = tempfile.mkdtemp(prefix='vh-')
    rows = []
    try:
        fs = FileSearcher()
        sd = SearchDef('x')
        for f in FILES:
            if f > 0:
                p = os.path.join(tmpdir, f'f{f}')
                open(p, 'w').close()
                fs.add(sd, p)
            assert len(fs.files) == f
            for m in MS:
                fs.max_parallel_tasks = m
                for c in CPUS:
                    with mock.patch('os.cpu_count', return_value=c):
                        rows.append([m, c, f, fs.num_parallel_tasks])
        return rows
    finally:
        shutil.rmtree(tmpdir, ignore_errors=True)


# files-per-worker relations that are always run (round 10: a dispatch in batches went wrong
# only when the number of files was a multiple of 4 x workers): (max_parallel_tasks, files)
MANY_PER_WORKER = [(1, 8), (0, 12), (2, 16), (1, 9), (3, 24), (2, 7), (4, 32), (1, 4), (2, 8)]


def gen_run(rng, tier, ratio=None):
    nfiles = rng.choice([1, 1, 2, 3, 5, 8, 12]) if ratio is None else ratio[1]
    scn = gen.gen_run_scenario(rng, tier, nfiles=nfiles, lines=rng.choice([3, 20, 200]),
                               constraint=0.0, empty=0.1 if ratio is None else 0.0)
    scn['max_parallel_tasks'] = rng.choice([0, 1, 2, 3, 4, 8, 16]) if ratio is None else ratio[0]
    if ratio is not None:
        return scn
    if rng.random() < 0.2:
        # names a rotation / backup scheme can leave behind (plain content): '.gz' inside
        # the name, not at its end, or twice
        for k, f in enumerate(scn['files']):
            if rng.random() < 0.5:
                f['name'] = rng.choice(['f%d.log.gz.1', 'f%d.gz.old', 'f%d.tar.gz.txt',
                                        'f%d.gz.gz.bak', 'gz.f%d']) % k
    if rng.random() < 0.2:
        scn['_foreign_lookup'] = rng.choice([1, 2, 5])
    if rng.random() < 0.3:
        # some registrations opt out of the (absent) file-level constraint: whatever mix of
        # flags a file's searches have, it stays ONE file with ONE task
        scn['regs'] = [r + [rng.random() < 0.5] for r in scn['regs']]
    if nfiles >= 2 and rng.random() < 0.25:
        # an environment fault in the PARENT after the jobs were handed out: `ps` (used when
        # the pool is torn down) is not on PATH / the connection to the manager breaks while
        # the store is un-proxied.  run() may raise; no task may run twice or in the caller.
        scn['_env_fault'] = rng.choice(['no_ps', 'unproxy_oserror'])
    return scn


def run_real(scn):
    core.import_searchkit()
    # a quarter of the runs with the application's debug logging on (records really formatted)
    with core.debug_logging(int(core.digest({k: v for k, v in scn.items()
                                             if not k.startswith('_')}), 16) % 4 == 0):
        return run_real_(scn)


def run_real_(scn):
    from searchkit import task as TK
    tmpdir = tempfile.mkdtemp(prefix='vh-')
    logf = os.path.join(tmpdir, '_exec.log')
    orig = TK.SearchTask.execute

    def wrapped(self):
        t0 = time.monotonic()
        try:
            return orig(self)
        finally:
            with open(logf, 'a') as f:
                f.write(f"{os.getpid()}\t{self.info['path']}\t{t0}\t{time.monotonic()}\n")
    wrapped.__name__ = 'execute'
    wrapped.__qualname__ = 'SearchTask.execute'
    TK.SearchTask.execute = wrapped
    old_path = os.environ.get('PATH')
    from searchkit import results_store as RS
    orig_unproxy = RS.ResultStoreParallel.unproxy_results
    fault = scn.get('_env_fault')
    if fault == 'no_ps':
        os.makedirs(os.path.join(tmpdir, '_nobin'))
        os.environ['PATH'] = os.path.join(tmpdir, '_nobin')
    elif fault == 'unproxy_oserror':
        def unproxy_results(self):
            raise BrokenPipeError(32, 'Broken pipe (injected)')
        RS.ResultStoreParallel.unproxy_results = unproxy_results
    try:
        built = S.Built(scn, tmpdir)
        fs = built.searcher()
        if scn.get('_foreign_lookup'):
            # asking the catalog about paths that were never registered registers nothing
            for k in range(scn['_foreign_lookup']):
                fs.catalog.get_source_id(os.path.join(tmpdir, f'never-registered-{k}.log'))
        # the catalog's source ids (results are filed by them): id of every file, and the path
        # each id maps back to
        ids = [[os.path.relpath(p, tmpdir), fs.catalog.get_source_id(p)] for p in fs.files]
        back = [os.path.relpath(fs.catalog.source_id_to_path(i) or '?', tmpdir) for _p, i in ids]
        npar = fs.num_parallel_tasks
        obs = S.run_searcher(built, fs, S.scenario_K(scn))
        recs = []
        if os.path.exists(logf):
            with open(logf) as f:
                for line in f:
                    pid, path, t0, t1 = line.rstrip('\n').split('\t')
                    recs.append([int(pid), os.path.relpath(path, tmpdir), float(t0), float(t1)])
        return {'recs': recs, 'caller': os.getpid(), 'npar': npar, 'cpus': os.cpu_count(),
                'ids': ids, 'ids_back': back,
                'err': obs.get('err'), 'files': [os.path.relpath(p, tmpdir) for p in fs.files]}
    finally:
        TK.SearchTask.execute = orig
        RS.ResultStoreParallel.unproxy_results = orig_unproxy
        if old_path is not None:
            os.environ['PATH'] = old_path
        if fault:
            core.kill_children()
        shutil.rmtree(tmpdir, ignore_errors=True)


def eval_runs(rng, count, extra):
    fixed = extra.get('fixed')
    todo = fixed if fixed is not None else [None] * count
    out = []
    for item in todo:
        if isinstance(item, dict) and '_ratio' in item:
            scn = gen_run(rng, extra.get('tier', 'quick'), ratio=item['_ratio'])
        else:
            scn = item if item is not None else gen_run(rng, extra.get('tier', 'quick'))
        out.append({'scn': scn, 'impl': run_real(scn)})
    return out


def witness(impl):
    """ a pool schedule consistent with the per-worker task orders """
    files = impl['files']
    by_path = {}
    for pid, path, t0, _t1 in impl['recs']:
        by_path.setdefault(path, []).append((pid, t0))
    pids = []
    events, busy = [], set()
    for ti, path in enumerate(files):
        if len(by_path.get(path, [])) != 1:
            return None
        pid = by_path[path][0][0]
        if pid not in pids:
            pids.append(pid)
        w = pids.index(pid)
        if w in busy:
            events.append(['finish', w, ti])
        events.append(['take', w, ti])
        busy.add(w)
    for w in sorted(busy):
        events.append(['finish', w, -1])
    return events


def judge_run(rep, item, mo, mplan):
    scn, impl = item['scn'], item['impl']
    nfiles = len(impl['files'])
    m = scn['max_parallel_tasks']
    bound = min((m if m else 1), impl['cpus'], max(nfiles, 1)) if m else 1
    pids = {r[0] for r in impl['recs']}
    rep.note_case(scn, nfiles >= 2, sample={'files': nfiles, 'max_parallel_tasks': m,
                                            'pids': len(pids)})
    rep.count('real_runs')
    rep.count('real_tasks', len(impl['recs']))
    fault = scn.get('_env_fault')
    if fault:
        rep.count('env_fault_runs')
        rep.count('env_fault_run_raised' if impl['err'] else 'env_fault_run_returned')
    if impl['err'] and not fault:
        rep.fail('failing-input', scn, f"run() raised {impl['err']}", impl=impl)
        return
    per_path = {}
    for r in impl['recs']:
        per_path[r[1]] = per_path.get(r[1], 0) + 1
    if fault and impl['err']:
        # the run was cut short by the fault: no task twice, none invented
        if any(v > 1 for v in per_path.values()) or not set(per_path) <= set(impl['files']):
            rep.fail('failing-input', scn,
                     f"environment fault {fault}: tasks executed per path {per_path} for files "
                     f"{impl['files']}", impl=impl)
            return
    elif sorted(per_path) != sorted(impl['files']) or any(v != 1 for v in per_path.values()):
        rep.fail('failing-input', scn,
                 f"tasks executed per path {per_path} for files {impl['files']}", impl=impl)
        return
    if nfiles == 1:
        if pids != {impl['caller']}:
            rep.fail('failing-input', scn, "a single file was not searched by the calling "
                     "process", impl=impl)
        return
    if impl['caller'] in pids:
        rep.fail('failing-input', scn, "a multi-file task ran in the calling process",
                 impl=impl)
        return
    if len(pids) > bound:
        rep.fail('failing-input', scn,
                 f"{len(pids)} distinct worker processes executed tasks; bound is "
                 f"min(max_parallel_tasks={m}, cpus={impl['cpus']}, files={nfiles}) = {bound}",
                 impl=impl)
        return
    if fault and impl['err']:
        return
    # source ids: distinct, and each maps back to its own file (directly); equal to the model's
    if len({i for _p, i in impl['ids']}) != len(impl['ids']) or \
            impl['ids_back'] != [p for p, _i in impl['ids']]:
        rep.fail('failing-input', scn, f"source ids {impl['ids']} map back to {impl['ids_back']}",
                 impl=impl['ids'])
        return
    mids = item.get('mids')
    if mids is not None and [m[0] if m else None for m in mids['ids']] != \
            [i for _p, i in impl['ids']]:
        rep.fail('correspondence-broken', scn,
                 f"source ids impl={impl['ids']} model={mids['ids']}", impl=impl['ids'], model=mids)
        return
    if mplan != ['pool', impl['npar']]:
        rep.fail('correspondence-broken', scn, f"plan impl pool({impl['npar']}) model {mplan}",
                 impl=impl, model=mplan)
        return
    if mo is None or not mo['valid'] or mo['pending'] or \
            sorted(t for _w, t in mo['finished']) != list(range(nfiles)):
        rep.fail('correspondence-broken', scn,
                 f"witness schedule rejected by the pool model: {mo}", impl=impl, model=mo)
        return
    rep.traces_validated += 1


def run(tier, seed, replay_case=None):
    rep = core.Report(PROP, tier, seed)
    core.lean_build()
    aud = core.audit(PROP)
    from vh import bridge
    bridge.check(rep, PROP)
    drv = core.Driver()
    if replay_case is None or replay_case.get('table'):
        rows = core.run_sharded(lambda _r, _c, _e: impl_table(), seed, 1, shards=1, workers=2)
        mrows = drv.run([{'kind': 'plan', 'ms': MS, 'cpus': CPUS, 'files': FILES}])[0]['model']
        mtab = {(m, c, f): (n, pl) for m, c, f, n, pl in mrows}
        for m, c, f, n in rows:
            rep.evaluations += 1
            rep.nontrivial.add((m, c, f))
            mn, mpl = mtab[(m, c, f)]
            want = 1 if m == 0 else min(m, c, max(f, 1))
            if n != want or n < 1:
                rep.fail('failing-input', {'table': True, 'm': m, 'cpus': c, 'files': f},
                         f"num_parallel_tasks={n} for max_parallel_tasks={m}, cpus={c}, "
                         f"files={f}; prescribed {want}", impl=n, spec=want)
                break
            if n != mn:
                rep.fail('correspondence-broken', {'table': True, 'm': m, 'cpus': c, 'files': f},
                         f"num_parallel_tasks impl={n} model={mn}", impl=n, model=mn)
                break
        rep.extra['exhaustive'] = True
        rep.samples.append({'table_rows': rows[:3] + rows[-3:]})
    nruns = 30 if tier == 'quick' else 300
    items = []
    corpus = [c for c in core.load_corpus(PROP)] if replay_case is None else \
        ([] if replay_case.get('table') else [replay_case])
    if corpus:
        items += eval_runs(None, 0, {'fixed': corpus})
    if replay_case is None:
        items += core.run_sharded(eval_runs, seed, nruns, {'tier': tier},
                                  shards=min(core.NCPU, nruns), workers=8)
        for k, ratio in enumerate(MANY_PER_WORKER):
            items += core.run_sharded(eval_runs, seed * 31 + k, 1,
                                      {'tier': tier, 'fixed': [{'_ratio': list(ratio)}]},
                                      shards=1, workers=1)
        rep.count('many_files_per_worker_runs', len(MANY_PER_WORKER))
    cases, plans = [], []
    for it in items:
        ev = witness(it['impl'])
        nfiles = len(it['impl']['files'])
        cases.append({'kind': 'pool', 'n': it['impl']['npar'], 'tasks': list(range(nfiles)),
                      'events': ev or []})
        plans.append({'kind': 'plan', 'ms': [it['scn']['max_parallel_tasks']],
                      'cpus': [it['impl']['cpus']], 'files': [nfiles]})
    mos = drv.run(cases)
    mps = drv.run(plans)
    # the catalog history of each run (registrations by file path, then the foreign lookups)
    # through the Lean model of the source-id table (SkModel.SourceIds, C02_filed_under_own_path)
    idcases = []
    for it in items:
        scn = it['scn']
        ops = [{'op': 'register', 'search': r[0], 'expanded': [scn['files'][r[1]]['name']]}
               for r in scn['regs'] if isinstance(r[1], int)]
        ops += [{'op': 'lookup', 'path': f'never-registered-{k}.log'}
                for k in range(scn.get('_foreign_lookup', 0))]
        idcases.append({'kind': 'catids', 'ops': ops, 'queries': it['impl'].get('files', [])})
    for it, mi in zip(items, drv.run(idcases)):
        it['mids'] = mi['model']
    for it, mo, mp in zip(items, mos, mps):
        judge_run(rep, it, mo['model'], mp['model'][0][4])
    rep.assumptions = ["ProcessPoolExecutor(max_workers=n) spawns at most n worker processes "
                       "(sampled by the pid traces)"]
    return rep.finish(aud, RULE)
