"""
C12 — gzip-compressed files are searched exactly like their uncompressed content.

Theorem side: lean/SkModel/Theorems/C12.lean (`C12_gzip_transparent`: nothing in the
pipeline but the open logic looks at the raw bytes).  Correspondence (carries most of
the weight): every scenario of the C01/C03/C04/C07 families is run on the plain file
and on gzip encodings of the same content (levels 1/6/9, multi-member); results, line
numbers and statistics must be identical, and equal to the model's.
"""
from vh import core, scenario as S, taskcheck as T
from vh.props import c01, c03, c04, c07

PROP = 'C12'
RULE = ("scenario = one of the C01 / C03 / C04 / C07 scenario families (simple and sequence "
        "searches, file-level and per-search since constraints) x {gzip level 1, 6, 9, "
        "multi-member with 2..4 members cut at arbitrary byte positions}; plus one 64 MB log with a "
        "since constraint (plain vs gzip, no model); non-trivial = the "
        "content has >= 3 lines and the plain run returns >= 1 result; distinct by "
        "(scenario, encoding) hash")


def gen_longline(rng):
    """ a few old lines, then ONE very long line (20..70 KiB) that is the first line inside the
    since window, then newer lines: the bisect probes land deep inside the long line, far
    beyond any read-ahead a gzip-specific code path might use """
    from datetime import timedelta
    from vh import gen, matchers
    t0 = gen.BASE
    lines = [matchers.fmt_ts('std', t0 + timedelta(minutes=k)).encode() + b' old B %d' % k
             for k in range(rng.choice([1, 2, 4]))]
    t1 = t0 + timedelta(days=1)
    lines.append(matchers.fmt_ts('std', t1).encode() + b' S first ' +
                 b'y' * rng.choice([20000, 33000, 70000]))
    lines += [matchers.fmt_ts('std', t1 + timedelta(minutes=k + 1)).encode() + b' B new %d' % k
              for k in range(rng.choice([1, 3]))]
    defs = [gen.gen_simple_def(rng) for _ in range(rng.choice([1, 2]))]
    defs.append({'type': 'simple', 'pats': [r'\S+ \S+ (\w) (\w+)'], 'tag': 'ln', 'store': True})
    return {'files': [{'name': 'f0.log', 'content': (b'\n'.join(lines) + b'\n').hex()}],
            'defs': defs, 'regs': [[i, 0] for i in range(len(defs))],
            'constraints': [{'current': (t1 + timedelta(days=1)).strftime('%Y-%m-%d %H:%M:%S'),
                             'days': 1, 'matcher': 'std'}], 'global': 0}


def gen_scenario(rng, tier):
    if rng.random() < 0.03:
        scn = gen_longline(rng)
        scn['_family'] = 'longline'
        scn['_encodings'] = [{'level': rng.choice([1, 6, 9]),
                              'mtime': rng.choice([0, 946684800])}]
        return scn
    fam = rng.choice(['c01', 'c03', 'c04', 'c04', 'c07', 'c07'])
    if fam == 'c01':
        scn = c01.gen_scenario(rng, tier)
    elif fam == 'c03':
        scn = c03.gen_scenario(rng, tier)
    elif fam == 'c04':
        scn = c04.gen_case(rng, tier)
    else:
        scn = c07.gen_scenario(rng, tier)
    scn['_family'] = fam
    if fam in ('c04', 'c07') and rng.random() < 0.3:
        # one of the first lines is far longer than any read-ahead a gzip-specific code path
        # might use (8 KiB .. 64 KiB): still one line, still dated by its first bytes
        data = S.file_bytes(scn['files'][0])
        ls = data.split(b'\n')
        if len(ls) > 2 and 'gzip' not in scn['files'][0]:
            k = rng.choice([0, 1, 1, 2])
            ls[k] = ls[k] + b' ' + b'y' * rng.choice([8200, 9000, 17000, 40000, 70000])
            scn['files'][0] = dict(scn['files'][0], content=b'\n'.join(ls).hex())
            if scn.get('global') is not None and rng.random() < 0.7:
                # ... and the file-level since date is exactly that line's timestamp
                from datetime import timedelta
                from vh import matchers
                g = scn['global']
                kind = scn['constraints'][g].get('matcher', 'std')
                t = matchers.oracle_ts(kind, ls[k][:64])
                if t is not None:
                    cons = list(scn['constraints'])
                    cons[g] = {'current': (t + timedelta(days=1)).strftime('%Y-%m-%d %H:%M:%S'),
                               'days': 1, 'matcher': kind}
                    scn['constraints'] = cons
    n = len(S.file_bytes(scn['files'][0]))
    encs = [{'level': 1}, {'level': 6}, {'level': 9}]
    members = rng.choice([2, 3, 4])
    encs.append({'level': rng.choice([1, 6, 9]), 'members': members,
                 'cuts': sorted(rng.randrange(0, n + 1) for _ in range(members - 1))})
    # the MTIME field of the gzip member header is metadata: absent (0), in the year 2000, or
    # recent - never something the search may depend on
    for e in encs:
        e['mtime'] = rng.choice([0, 0, 946684800, 1700000000])
    scn['_encodings'] = [rng.choice(encs[:3]), encs[3]] if tier == 'quick' else encs
    return scn


def gz_variant(scn, enc):
    s2 = {k: v for k, v in scn.items() if not k.startswith('_') or k == '_expanded'}
    s2['files'] = [dict(f, gzip=enc) for f in scn['files']]
    return s2


def eval_cases(rng, count, extra):
    fixed = extra.get('fixed')
    todo = fixed if fixed is not None else [None] * count
    out = []
    for item in todo:
        scn = item if item is not None else gen_scenario(rng, extra.get('tier', 'quick'))
        plain = S.run_impl({k: v for k, v in scn.items()
                            if not k.startswith('_') or k == '_expanded'})
        gz = [S.run_impl(gz_variant(scn, enc)) for enc in scn['_encodings']]
        item = {'scn': scn, 'plain': plain, 'gz': gz}
        if scn.get('_second'):
            item['second'] = same_path_twice(scn, scn['_encodings'][0])
        out.append(item)
    return out


def same_path_twice(scn, enc):
    """ the same PATH holding first one gzip content, then another, searched twice in one
    process; returns (gzip observation of the 2nd content, plain observation of it) """
    import shutil
    import tempfile
    first = gz_variant(scn, enc)
    second = gz_variant(dict(scn, files=[dict(scn['files'][0], content=scn['_second'])]), enc)
    tmpdir = tempfile.mkdtemp(prefix='vh-')
    try:
        built = S.Built(first, tmpdir)
        S.run_searcher(built, built.searcher(), S.scenario_K(first))
        b2 = S.Built(second, tmpdir)                  # new objects, same path, new content
        got = S.run_searcher(b2, b2.searcher(), S.scenario_K(second))
    finally:
        shutil.rmtree(tmpdir, ignore_errors=True)
    plain2 = {k: v for k, v in second.items()}
    plain2['files'] = [{k: v for k, v in second['files'][0].items() if k != 'gzip'}]
    return {'gz': got, 'plain': S.run_impl(plain2)}


def strip(obs):
    return S.pub(obs)


def huge_eval(rng, count, extra):
    """ a log of ~64 MB (300 000 dated lines, poorly compressible) searched with a file-level
    since constraint, plain and gzip: however long the seeks in the compressed stream take,
    the search starts at the same line.  No model run (the content never leaves this process):
    the property is checked directly, plain vs gzip. """
    import gzip
    import hashlib
    import os
    import shutil
    import tempfile
    from datetime import datetime, timedelta
    core.import_searchkit()
    from searchkit import FileSearcher, SearchDef
    from searchkit.constraints import SearchConstraintSearchSince
    from vh import matchers
    n = extra.get('lines', 300000)
    t0 = datetime(2024, 1, 1)
    tmp = tempfile.mkdtemp(prefix='vh-huge-')
    try:
        body = []
        for k in range(n):
            t = t0 + timedelta(seconds=60 * k)
            body.append((t.strftime('%Y-%m-%d %H:%M:%S ') +
                         hashlib.sha256(b'%d' % k).hexdigest() * 3 +
                         (' ERR' if k % 1000 == 0 else '')).encode())
        data = b'\n'.join(body) + b'\n'
        plain, gz = os.path.join(tmp, 'a.log'), os.path.join(tmp, 'b.log')
        with open(plain, 'wb') as f:
            f.write(data)
        with gzip.open(gz, 'wb', compresslevel=1) as f:
            f.write(data)
        cur = t0 + timedelta(seconds=60 * (n - n // 50)) + timedelta(days=1)
        out = {'bytes': len(data)}
        for name, path in (('plain', plain), ('gzip', gz)):
            c = SearchConstraintSearchSince(current_date=cur.strftime('%Y-%m-%d %H:%M:%S'),
                                            ts_matcher_cls=matchers.MATCHERS['std'], days=1)
            fs = FileSearcher(constraint=c)
            fs.add(SearchDef(r'.* ERR$', tag='e'), path)
            try:
                with core.time_limit(300):
                    res = fs.run()
                out[name] = {'results': [r.linenumber for r in res.find_by_tag('e')][:20],
                             'n': len(res), 'lines': fs.stats['lines_searched']}
            except core.CaseTimeout:
                out[name] = {'err': 'hang(>300s)'}
            except Exception as e:  # pylint: disable=broad-except
                out[name] = {'err': type(e).__name__}
        return [out]
    finally:
        shutil.rmtree(tmp, ignore_errors=True)


def run(tier, seed, replay_case=None):
    rep = core.Report(PROP, tier, seed)
    core.lean_build()
    aud = core.audit(PROP)
    total = 300 if tier == 'quick' else 5000
    items = []
    is_huge = replay_case is not None and replay_case.get('huge')
    corpus = core.load_corpus(PROP) if replay_case is None else ([] if is_huge else [replay_case])
    if corpus:
        items += eval_cases(None, 0, {'fixed': corpus})
    if replay_case is None:
        items += core.run_sharded(eval_cases, seed, total, {'tier': tier})
    if replay_case is None or is_huge:
        for h in core.run_sharded(huge_eval, seed, 1, {'tier': tier}, shards=1, workers=1):
            rep.evaluations += 1
            rep.count('huge_gzip_cases')
            rep.count('huge_gzip_bytes', h['bytes'])
            if h['plain'] != h['gzip']:
                rep.fail('failing-input', {'huge': True, 'lines': 300000},
                         f"a {h['bytes']}-byte log with a file-level since constraint: plain "
                         f"{h['plain']} but gzip {h['gzip']}", impl=h['gzip'], spec=h['plain'])
    drv = core.Driver()
    flat = []
    for it in items:
        for enc in it['scn']['_encodings']:
            flat.append(gz_variant(it['scn'], enc))
    mruns = iter(T.run_models(flat, drv))
    for it in items:
        scn, plain = it['scn'], it['plain']
        nlines = S.file_bytes(scn['files'][0]).count(b'\n')
        if 'second' in it:
            rep.count('same_path_second_content')
            if strip(it['second']['gz']) != strip(it['second']['plain']):
                rep.fail('failing-input', scn,
                         "the same path searched again after it was replaced by another gzip "
                         "content differs from the plain search of that content: "
                         f"gzip {it['second']['gz'].get('stats', it['second']['gz'])} plain "
                         f"{it['second']['plain'].get('stats', it['second']['plain'])}",
                         impl=strip(it['second']['gz']), spec=strip(it['second']['plain']))
                for _enc in scn['_encodings']:
                    next(mruns)
                continue
        for enc, gz in zip(scn['_encodings'], it['gz']):
            mr = next(mruns)
            rep.evaluations += 1
            if nlines >= 3 and plain.get('len', 0) >= 1:
                rep.nontrivial.add(core.digest([scn['files'], scn['defs'], enc]))
            rep.count('family_' + scn['_family'])
            rep.count('multi_member' if enc.get('members', 1) > 1 else 'single_member')
            if len(rep.samples) < 2:
                rep.samples.append({'family': scn['_family'], 'encoding': enc,
                                    'stats': plain.get('stats')})
            if strip(gz) != strip(plain):
                d = None
                if 'err' not in gz and 'err' not in plain:
                    for name in plain['paths']:
                        d = d or T.compare_results(gz['paths'].get(name, []), plain['paths'][name])
                    d = d or f"stats gzip={gz['stats']} plain={plain['stats']}"
                else:
                    d = f"outcome gzip={gz.get('err', 'returned')} plain={plain.get('err', 'returned')}"
                case = dict(scn, _encodings=[enc])
                rep.fail('failing-input', case,
                         f"gzip encoding {enc} searched differently from the plain file: {d}",
                         impl=strip(gz) if 'err' in gz else gz.get('stats'),
                         spec=strip(plain) if 'err' in plain else plain.get('stats'))
                break
            if T.judge_run(rep, gz_variant(scn, enc), gz, mr, what=f"gzip {enc}: "):
                break
    rep.assumptions = ["GzipFile emulates seek/tell/read of the uncompressed content "
                       "(exercised by this check, assumed by the model)"]
    return rep.finish(aud, RULE)
