"""
C08 — results depend only on file contents and registrations, not on earlier runs.

Theorem side: lean/SkModel/Theorems/C08.lean (`C08_persist_independent`: whatever state
the definition objects carry from earlier runs, the task yields the results of fresh
objects, up to the renaming of fresh section ids).  Correspondence: histories of 2..4
run() calls in one process over searchers SHARING definition and constraint objects
(repeat run, reuse after a file that ended mid-section, reuse of a constraint on the
same path, file rewritten between runs; single- and multi-file); every run is also
executed in a FRESH INTERPRETER as the reference, and against the model.
"""
import os
import shutil
import tempfile
from datetime import timedelta

from vh import core, fresh, gen, scenario as S, seekcheck as K, taskcheck as T

PROP = 'C08'
RULE = ("history = 2..4 runs sharing definition / constraint objects: same searcher run "
        "again, new searcher with the same objects on other files, file rewritten between "
        "runs, file ending in the middle of a sequence section followed by a file with body/"
        "end lines only, file-level constraint reused on the same path; each run compared with "
        "the same scenario in a fresh interpreter; non-trivial = >= 2 runs return results and "
        "the history contains a sequence search left open or a file-level constraint; "
        "distinct by history hash")


def seq_def(rng):
    return {'type': 'seq', 'tag': 'q', 'start': {'pats': [r'.*\bS\b'], 'store': True},
            'body': {'pats': [r'.*\bB\b'], 'store': True},
            'end': ({'pats': [rng.choice([r'.*\bE\b', r'(?:.*\bE\b)|$'])], 'store': True}
                    if rng.random() < 0.8 else None)}


TS_RE = None


def shift_timestamps(content, delta):
    """ every leading 'YYYY-MM-DD HH:MM:SS' shifted by delta, byte length unchanged """
    import re
    from datetime import datetime
    out = []
    for line in content.split(b'\n'):
        m = re.match(rb'(\d{4}-\d{2}-\d{2}) (\d{2}:\d{2}:\d{2})', line)
        if m:
            try:
                t = datetime.strptime(m.group(0).decode(), '%Y-%m-%d %H:%M:%S') + delta
                if 1000 <= t.year <= 9999:
                    line = t.strftime('%Y-%m-%d %H:%M:%S').encode() + line[m.end():]
            except ValueError:
                pass
        out.append(line)
    return b'\n'.join(out)


def gen_own_constraint_history(rng, multi):
    """
    A search with its OWN since constraint, no file-level one.  First a log on which the
    constraint passes lines; then, with the same objects (same searcher, or a new searcher
    re-using them), a log that BEGINS with undated lines followed by entries older than the
    since date: whatever the constraint object remembers of the first log - counters, offsets,
    the last verdict - must not open the gate on the second.
    """
    day = rng.choice([3, 5, 9])

    def ts(d, sec=0):
        return (gen.BASE + timedelta(days=d, seconds=sec)).strftime('%Y-%m-%d %H:%M:%S').encode()
    nfiles = 2 if multi else 1
    first = [ts(day - 2) + b' alpha old'] + [ts(day + k, k) + b' beta new%d' % k
                                              for k in range(rng.choice([1, 3]))]
    second = [rng.choice([b'Traceback (most recent call last):', b'  continued line',
                          b'gamma 7']) for _ in range(rng.choice([1, 2, 4]))] + \
        [ts(day - 3, k) + b' delta old%d' % k for k in range(rng.choice([1, 2]))] + \
        [ts(day + 1, k) + b' beta late%d' % k for k in range(rng.choice([1, 2]))]
    defs = [{'pats': [r'.*\b(\w+)$'], 'hint': None, 'store': True, 'type': 'simple', 'tag': 't1',
             'cons': [0]},
            {'pats': [r'(\S+)'], 'hint': None, 'store': True, 'type': 'simple', 'tag': 't2'}]
    regs = [[d, k] for d in range(len(defs)) for k in range(nfiles)]
    mk = lambda lines: [{'name': f'f{k}.log', 'content': (b'\n'.join(lines) + b'\n').hex()}
                        for k in range(nfiles)]
    steps = [{'how': 'first', 'files': mk(first), 'regs': regs, 'new_regs': []},
             {'how': rng.choice(['rewrite', 'new_searcher']), 'files': mk(second), 'regs': regs,
              'new_regs': []}]
    cur = gen.BASE + timedelta(days=day + 1)
    hist = {'defs': defs, 'steps': steps,
            'constraints': [{'current': cur.strftime('%Y-%m-%d %H:%M:%S'), 'days': 1,
                             'matcher': 'std'}]}
    if multi:
        hist['max_parallel_tasks'] = 2
    return hist


def gen_moved_boundary_history(rng, multi):
    """
    A file-level since constraint; first a log whose first in-window line lies FAR into the
    file, then (same searcher or a new one re-using the objects) the same path holds a LONGER
    log whose first in-window line comes EARLY: whatever offset the constraint found the first
    time says nothing about the second file.
    """
    day = rng.choice([4, 8])

    def ts(d, sec=0):
        return (gen.BASE + timedelta(days=d, seconds=sec)).strftime('%Y-%m-%d %H:%M:%S').encode()
    nfiles = 2 if multi else 1
    n_old, n_new = rng.choice([30, 60]), rng.choice([2, 5])
    first = [ts(day - 2, k) + b' alpha old%d' % k for k in range(n_old)] + \
        [ts(day + 1, k) + b' beta new%d' % k for k in range(n_new)]
    m_old, m_new = rng.choice([2, 5]), rng.choice([60, 120])
    second = [ts(day - 2, k) + b' alpha was%d' % k for k in range(m_old)] + \
        [ts(day + 1, k) + b' beta now%d' % k for k in range(m_new)]
    defs = [{'pats': [r'.*\b(\w+)$'], 'hint': None, 'store': True, 'type': 'simple', 'tag': 't1'}]
    regs = [[0, k, True] for k in range(nfiles)]
    mk = lambda lines: [{'name': f'f{k}.log', 'content': (b'\n'.join(lines) + b'\n').hex()}
                        for k in range(nfiles)]
    steps = [{'how': 'first', 'files': mk(first), 'regs': regs, 'new_regs': []},
             {'how': 'repeat', 'files': mk(first), 'regs': regs, 'new_regs': []},
             {'how': rng.choice(['rewrite', 'new_searcher']), 'files': mk(second), 'regs': regs,
              'new_regs': []}]
    cur = gen.BASE + timedelta(days=day + 1)
    hist = {'defs': defs, 'steps': steps, 'global': 0,
            'constraints': [{'current': cur.strftime('%Y-%m-%d %H:%M:%S'), 'days': 1,
                             'matcher': 'std'}]}
    if multi:
        hist['max_parallel_tasks'] = 2
    return hist


def gen_derived_matcher_history(rng, multi):
    """
    Two file-level constraints with the same dates whose timestamp matcher classes are parent
    and child (the child recognises other patterns); searcher after searcher, in one
    interpreter, alternately with the one and the other: what a matcher class recognises does
    not depend on which classes were used before it.
    """
    day = rng.choice([4, 8])

    def ts(d, sec=0):
        return (gen.BASE + timedelta(days=d, seconds=sec)).strftime('%Y-%m-%d %H:%M:%S').encode()

    def br(d, sec=0):
        return (gen.BASE + timedelta(days=d, seconds=sec)).strftime('[%d/%m/%Y %H:%M:%S]').encode()
    nfiles = 2 if multi else 1
    lines = [ts(day - 2, k) + b' alpha old%d' % k for k in range(3)] + \
        [br(day - 2, 9) + b' gamma oldbr'] + \
        [ts(day + 1, k) + b' beta new%d' % k for k in range(3)] + [br(day + 1, 9) + b' gamma newbr']
    defs = [{'pats': [r'.*\b(\w+)$'], 'hint': None, 'store': True, 'type': 'simple', 'tag': 't1'}]
    regs = [[0, k, True] for k in range(nfiles)]
    files = [{'name': f'f{k}.log', 'content': (b'\n'.join(lines) + b'\n').hex()}
             for k in range(nfiles)]
    order = rng.choice([[0, 1, 0], [1, 0, 1], [0, 1, 1]])
    steps = [{'how': 'first' if i == 0 else 'new_searcher', 'files': files, 'regs': regs,
              'new_regs': [], 'global': g} for i, g in enumerate(order)]
    cur = gen.BASE + timedelta(days=day + 1)
    c0 = {'current': cur.strftime('%Y-%m-%d %H:%M:%S'), 'days': 1, 'matcher': 'std'}
    hist = {'defs': defs, 'steps': steps, 'global': order[0],
            'constraints': [c0, dict(c0, matcher='subbrk')]}
    if multi:
        hist['max_parallel_tasks'] = 2
    return hist


def gen_history(rng, tier, multi):
    r0 = rng.random()
    if r0 < 0.07:
        return gen_own_constraint_history(rng, multi)
    if r0 < 0.14:
        return gen_moved_boundary_history(rng, multi)
    if r0 < 0.2:
        return gen_derived_matcher_history(rng, multi)
    use_ts = rng.random() < 0.5
    kind = 'std'
    nfiles = rng.choice([2, 3]) if multi else 1
    defs = [seq_def(rng)]
    for _ in range(rng.choice([0, 1, 2])):
        defs.append(gen.gen_simple_def(rng))
    if rng.random() < 0.3:
        defs.append(gen.gen_seq_def(rng))
    steps, all_times = [], []

    def mk_files():
        files = []
        for k in range(nfiles):
            if use_ts:
                c, times = K.gen_log(rng, rng.choice([2, 5, 12]), kind, ordered=True,
                                     undated=0.2, longs=0.05)
                all_times.extend(times)
            else:
                lines = gen.gen_lines(rng, rng.choice([1, 3, 8, 20]), seqish=True, longs=0.02)
                r = rng.random()
                if r < 0.35:
                    lines.append(b'x S open')            # ends inside a section
                elif r < 0.6:
                    lines = [b'B orphan body', b'E orphan end'] + lines
                c = gen.assemble(rng, lines)
            files.append({'name': f'f{k}.log', 'content': c.hex()})
        return files
    nsteps = rng.choice([2, 2, 3, 4])
    files = mk_files()
    # some histories register through the directory / a glob, and a file may be EMPTY when it is
    # registered and get its content later: what run() does depends on the files as they are
    # when it runs
    via = rng.choice([None, None, None, '', '*.log'])
    if via is not None or rng.random() < 0.1:
        for f in files:
            if rng.random() < 0.35:
                f['content'] = ''
    regs = None
    for i in range(nsteps):
        how = rng.choice(['repeat', 'repeat', 'rewrite', 'rewrite_same_size', 'new_searcher',
                          'grow' if via is None else 'rewrite']) if i else 'first'
        if how == 'rewrite_same_size' and not use_ts:
            how = 'rewrite'
        new_regs = []
        if how == 'rewrite':
            fresh = mk_files()
            files = [dict(f, content=fresh[i % len(fresh)]['content']) for i, f in enumerate(files)]
        elif how == 'rewrite_same_size':
            # same paths, same byte sizes, every timestamp shifted: the first in-window line moves
            delta = timedelta(days=rng.choice([-3, -1, 1, 2, 5]), hours=rng.choice([0, 7]))
            files = [dict(f, content=shift_timestamps(bytes.fromhex(f['content']), delta).hex())
                     for f in files]
        elif how == 'grow':
            # the same searcher gets one more file (1 file -> 2 files switches to worker processes)
            k = len(files)
            extra = mk_files()[0]
            extra['name'] = f'g{k}.log'
            files = files + [extra]
            new_regs = [[d, k] for d in range(len(defs)) if rng.random() < 0.9] or [[0, k]]
        if how in ('first', 'new_searcher') or regs is None:
            # (with a file-level constraint some registrations opt out of it: whether a search
            # object opted out is a property of THIS searcher's registrations only)
            regs = [[d, k] + ([rng.random() < 0.75] if use_ts else [])
                    for d in range(len(defs)) for k in range(len(files))
                    if rng.random() < 0.85] or [[0, 0]]
            if via is not None:
                regs = [[d, via] + ([rng.random() < 0.75] if use_ts else [])
                        for d in range(len(defs)) if rng.random() < 0.9] or [[0, via]]
        else:
            regs = regs + new_regs
        steps.append({'how': how, 'files': files, 'regs': list(regs), 'new_regs': new_regs})
    hist = {'defs': defs, 'steps': steps}
    if via is not None:
        hist['_expanded'] = {via: list(range(nfiles))}
    if use_ts:
        hist['constraints'] = [K.gen_since(rng, all_times, kind)]
        hist['global'] = 0
        if rng.random() < 0.4:
            # a second file-level constraint whose matcher class DERIVES from the first one's
            # (other patterns): searchers created later in the history use it - what a matcher
            # class recognises does not depend on which classes were used before
            hist['constraints'].append(dict(hist['constraints'][0], matcher='subbrk'))
            seen_new = False
            for st in steps:
                seen_new = seen_new or st['how'] == 'new_searcher'
                if seen_new:
                    st['global'] = 1
        if rng.random() < 0.4:
            defs[-1]['cons'] = [0]
    if multi:
        hist['max_parallel_tasks'] = rng.choice([2, 3])
    return hist


def step_scn(hist, step):
    scn = {k: v for k, v in hist.items() if k != 'steps'}
    scn['files'] = step['files']
    scn['regs'] = step['regs']
    if 'global' in step:
        scn['global'] = step['global']
    return scn


def run_history(hist):
    tmpdir = tempfile.mkdtemp(prefix='vh-')
    obs = []
    try:
        built, fs = None, None
        for step in hist['steps']:
            scn = step_scn(hist, step)
            if built is None:
                built = S.Built(scn, tmpdir)
            else:
                built.scn = scn
                for f in S.with_ids(scn, built.def_ids)['files']:
                    built.write_file(f)
            if step['how'] in ('first', 'new_searcher'):
                fs = built.searcher()
            else:
                for di, fi in step.get('new_regs', []):
                    fs.add(built.defs[di], os.path.join(tmpdir, scn['files'][fi]['name']))
            obs.append(S.run_searcher(built, fs, S.scenario_K(scn)))
        return obs
    finally:
        shutil.rmtree(tmpdir, ignore_errors=True)


def eval_cases(rng, count, extra):
    fixed = extra.get('fixed')
    todo = fixed if fixed is not None else [None] * count
    out = []
    for item in todo:
        hist = item if item is not None else gen_history(rng, extra.get('tier', 'quick'),
                                                         extra.get('multi', False))
        obs = run_history(hist)
        ref = [fresh.run_fresh(step_scn(hist, st)) for st in hist['steps']]
        out.append({'hist': hist, 'obs': obs, 'ref': ref})
    return out


def strip(o):
    return S.pub(o)


def run(tier, seed, replay_case=None):
    rep = core.Report(PROP, tier, seed)
    core.lean_build()
    aud = core.audit(PROP)
    n_single, n_multi = (150, 12) if tier == 'quick' else (2000, 100)
    items = []
    corpus = core.load_corpus(PROP) if replay_case is None else [replay_case]
    if corpus:
        items += eval_cases(None, 0, {'fixed': corpus})
    if replay_case is None:
        items += core.run_sharded(eval_cases, seed, n_single, {'tier': tier})
        items += core.run_sharded(eval_cases, seed + 1, n_multi, {'tier': tier, 'multi': True},
                                  shards=min(core.NCPU, n_multi))
    drv = core.Driver()
    flat = [step_scn(it['hist'], st) for it in items for st in it['hist']['steps']]
    # arbitrary object state for the model side (C08_persist_independent is for every state)
    persists = [[[d, (7 * (i + 1)) % 11] for d in range(len(s['defs']))]
                for i, s in enumerate(flat)]
    mruns = iter(T.run_models(flat, drv, persists))
    for it in items:
        hist = it['hist']
        with_res = sum(1 for o in it['obs'] if o.get('len', 0) > 0)
        rep.note_case(hist, with_res >= 2,
                      sample={'steps': [s['how'] for s in hist['steps']],
                              'defs': hist['defs'][:2]})
        rep.count('histories_multi' if 'max_parallel_tasks' in hist else 'histories_single')
        failed = False
        rows = []
        for step, obs, ref in zip(hist['steps'], it['obs'], it['ref']):
            rows.append((step, obs, ref, next(mruns)))
            rep.count('runs')
            rep.count('step_' + step['how'])
        # the property first, for EVERY run of the history: same as a fresh interpreter
        for i, (step, obs, ref, mr) in enumerate(rows):
            if ref.get('err') == 'fresh-interpreter-failed':
                raise core.Infra("fresh interpreter failed: " + ref.get('stderr', ''))
            if strip(obs) != strip(ref):
                d = None
                if 'err' not in obs and 'err' not in ref:
                    for name in set(obs['paths']) | set(ref['paths']):
                        d = d or T.compare_results(obs['paths'].get(name, []),
                                                   ref['paths'].get(name, []))
                    d = d or f"stats {obs['stats']} vs fresh {ref['stats']}"
                else:
                    d = f"outcome {obs.get('err', 'returned')} vs fresh {ref.get('err', 'returned')}"
                rep.fail('failing-input', hist,
                         f"run #{i + 1} ({step['how']}) differs from the same scenario in a "
                         f"fresh interpreter: {d}", impl=strip(obs) if 'err' in obs else
                         obs.get('stats'), spec=strip(ref) if 'err' in ref else ref.get('stats'))
                failed = True
                break
        # then the model, run by run
        for i, (step, obs, ref, mr) in enumerate(rows):
            if failed:
                break
            if not mr['persistOk']:
                raise core.Infra("Lean model: runTaskFrom differs from runTask on a case "
                                 "(contradicts C08_persist_independent)")
            if T.judge_run(rep, step_scn(hist, step), obs, mr, what=f"run #{i + 1}: "):
                failed = True
    rep.assumptions = ["a forked pool worker / fresh interpreter starts with pristine module "
                       "state"]
    return rep.finish(aud, RULE)
