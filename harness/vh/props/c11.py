"""
C11 — line lookup at any byte offset returns the line containing it; the position a
since constraint leaves is 0, EOF or just after a line feed.

Theorem side: lean/SkModel/Theorems/C11.lean (loop invariants of the chunked scans).
Correspondence: the real `LogFileDateSinceSeeker.try_find_line` at EVERY offset of
generated contents and `apply_to_file` on arbitrary (also unordered) logs, against
the model and against the declarative spec (nearest line feeds).
"""
from vh import core, gen, seekcheck as K

PROP = 'C11'
RULE = ("case = byte content (0..~4 KiB quick; lines of length 0..1100 incl. 63/64/65, "
        "255/256/257, 511..513, 767..770, 1023..1025; leading/trailing/consecutive/no line "
        "feeds; dated and undated lines, unordered too) x EVERY offset 0..len for "
        "try_find_line, plus apply_to_file with a since date before/between/equal/after; "
        "thorough adds lines of 1 MiB +- 256 probed at selected offsets; non-trivial = "
        "content has >= 2 line feeds and a line longer than the 256-byte horizon; distinct "
        "by content hash")


def gen_case(rng, tier):
    r = rng.random()
    kind = rng.choice(['std', 'std', 'multi', 'derived'])
    where = None
    if r < 0.08:
        content, times = rng.choice([b'', b'\n', b'\n\n', b'x', b'x\n', b'\nx', b'\nab\ncd', b'\n\nab\n',
                                     b'x' * 256, b'x' * 257 + b'\n', b'\n' + b'y' * 255,
                                     b'a' * 512 + b'\n' + b'b' * 300]), []
    elif r < 0.13:
        # the first line is a timestamp behind a few stray bytes (a NUL left by copytruncate,
        # a quote, a comment sign): not a dated line, and not a line boundary after byte 0
        content, times = K.gen_log(rng, rng.choice([1, 2, 3, 6]), kind, ordered=True,
                                   undated=rng.choice([0.0, 0.3]), longs=0.1, embedded=0.0)
        content = rng.choice([b'#', b'"', b'\x00', b'x', b' ', b'##', b'\n#']) + \
            content.lstrip(b'\n')
        where = 'before' if rng.random() < 0.6 else None
    else:
        n = rng.choice([1, 2, 3, 4, 6, 10, 25])
        content, times = K.gen_log(rng, n, kind, ordered=rng.random() < 0.6,
                                   undated=rng.choice([0.1, 0.4, 0.9]),
                                   longs=rng.choice([0.2, 0.5, 0.9]),
                                   malformed=0.05 if rng.random() < 0.3 else 0.0,
                                   lookalike=0.2 if rng.random() < 0.3 else 0.0)
        if len(content) > 6000:
            content = content[:6000]
    cons = K.gen_since(rng, times, kind, where)
    case = {'content': content.hex(), 'cons': cons, 'order_seed': rng.randrange(1 << 30)}
    if rng.random() < 0.12 and len(content) <= 1500:
        # the lookups are made on a GzipFile over the same bytes (1..3 members)
        case['gz_members'] = rng.choice([1, 2, 3])
    elif rng.random() < 0.1:
        # lookups through a sub-class that sets another SEEK_HORIZON (small contents only: what
        # is found there does not depend on the horizon as long as ONE value is used throughout)
        case['sub_horizon'] = rng.choice([64, 1024])
    return case


def gen_big_case(rng):
    """ thorough: one very long line around the 1 MiB limit, probed at a few offsets """
    consts = K.live_constants()
    limit = consts['H'] * consts['EXP']
    # (the zone limit-256 < ln < limit is where the forward scan needs its LAST window)
    ln = limit + rng.choice([-513, -257, -256, -255, -200, -128, -2, -1, 0, 1, 255, 256, 257])
    pre = rng.choice([b'', b'ab\n', b'2023-01-01 00:00:00 x\n'])
    post = rng.choice([b'', b'\n', b'\nend\n'])
    content = pre + b'x' * ln + post
    offs = sorted({0, len(pre), len(pre) + 1, len(pre) + 255, len(pre) + 256, len(pre) + 257,
                   len(pre) + ln // 2, len(pre) + ln - 257, len(pre) + ln - 1,
                   len(pre) + ln, len(content)} & set(range(len(content) + 1)))
    return {'content_gen': {'pre': pre.hex(), 'fill': ln, 'post': post.hex()},
            'offsets': offs, 'cons': K.gen_since(rng, [], 'std')}


def case_content(case):
    if 'content' in case:
        return bytes.fromhex(case['content'])
    g = case['content_gen']
    return bytes.fromhex(g['pre']) + b'x' * g['fill'] + bytes.fromhex(g['post'])


def eval_cases(rng, count, extra):
    consts = K.live_constants()
    fixed = extra.get('fixed')
    todo = fixed if fixed is not None else [None] * count
    out = []
    for item in todo:
        if item is not None:
            case = item
        elif extra.get('big'):
            case = gen_big_case(rng)
        else:
            case = gen_case(rng, extra.get('tier', 'quick'))
        content = case_content(case)
        offs = case.get('offsets')
        impl = {'tfl': K.impl_tfl_all(content, case['cons'], offs,
                                      order_seed=case.get('order_seed'),
                                      gz_members=case.get('gz_members', 0),
                                      sub_horizon=case.get('sub_horizon')),
                'apply': K.impl_apply(content, case['cons']),
                # the non-destructive form (returns the offset, leaves the position alone)
                'apply_nd': K.impl_apply(content, case['cons'], destructive=False)}
        ops = ([['tfl', o] for o in offs] if offs is not None else [['tfl_all']])
        ops.append(['apply'])
        out.append({'case': case, 'impl': impl, 'consts': consts,
                    'model_case': K.seek_case(content, case['cons'], ops, consts),
                    'shape': {'len': len(content), 'lfs': content.count(b'\n'),
                              'longest': max([len(x) for x in content.split(b'\n')] + [0]),
                              'lf_set': None}})
    return out


def judge(rep, item, mobs):
    case, impl, consts = item['case'], item['impl'], item['consts']
    content = case_content(case)
    shape = item['shape']
    rep.note_case(case, shape['lfs'] >= 2 and shape['longest'] > consts['H'],
                  sample={'case': case if len(content) < 400 else
                          {'content_len': len(content), 'cons': case['cons']},
                          'apply': impl['apply']})
    outs = mobs['model']['outs']
    offs = case.get('offsets')
    if offs is None:
        offs = list(range(len(content) + 1))
        mrows, srows = outs[0]['tfl'], outs[0]['spec']
        mapply = outs[1]
    else:
        mrows = [o['tfl'] for o in outs[:-1]]
        srows = [o['spec'] for o in outs[:-1]]
        mapply = outs[-1]
    rep.count('lookups', len(offs))
    limit = (consts['EXP'] - 1) * consts['H']
    for o, irow, mrow, srow in zip(offs, impl['tfl'], mrows, srows):
        ls, le = srow
        if ls != K.py_line_start(content, o) or le != K.py_line_end(content, o):
            raise core.Infra(f"Lean spec and harness spec of 'line at offset' disagree at {o}")
        in_limit = (le - ls) <= limit
        if isinstance(irow, dict):
            rep.fail('failing-input', case,
                     f"try_find_line({o}) gave {irow['unstable'][0]} and later, on the same "
                     f"seeker after other lookups, {irow['unstable'][1]}", impl=irow, spec=srow)
            return
        if isinstance(irow, str):
            rep.count('lookup_' + irow)
            if in_limit or irow != 'maxLineLen':
                rep.fail('failing-input', case,
                         f"try_find_line({o}) raised {irow} for a line of {le - ls} bytes",
                         impl=irow, spec=srow)
                return
        else:
            s, e, d, text_ok = irow
            want_e = le - 1 if le < len(content) else len(content)
            if s != ls or e != want_e or not text_ok:
                rep.fail('failing-input', case,
                         f"try_find_line({o}) -> start={s} end={e} text_ok={text_ok}; the "
                         f"line containing byte {o} is [{ls},{le})", impl=irow, spec=srow)
                return
        mcmp = mrow if isinstance(mrow, str) else list(mrow)
        icmp = irow if isinstance(irow, str) else irow[:3]
        if mcmp != icmp and not isinstance(mcmp, str) and not isinstance(icmp, str) \
                and mcmp[:2] == icmp[:2]:
            # the right line, the wrong timestamp: the model's date IS the matcher applied to
            # the window at the start of that line (oracle table), which is what C11 states
            rep.fail('failing-input', case,
                     f"try_find_line({o}) found the line [{ls},{le}) but reports timestamp "
                     f"{icmp[2]} for it; the timestamp at the start of that line is {mcmp[2]}",
                     impl=icmp, spec=mcmp)
            return
        if mcmp != icmp:
            rep.fail('correspondence-broken', case,
                     f"try_find_line({o}): impl={icmp} model={mcmp}", impl=icmp, model=mcmp)
            return
    # position shape after apply_to_file, for any content
    ia = impl['apply']
    ma = mapply['apply']
    if 'err' in ia:
        rep.fail('failing-input', case, f"apply_to_file raised {ia['err']}", impl=ia)
        return
    p = ia['pos']
    rep.count('apply_pos_0' if p == 0 else 'apply_pos_eof' if p == len(content)
              else 'apply_pos_mid')
    if not (p == 0 or p == len(content) or (0 < p <= len(content) and content[p - 1:p] == b'\n')):
        rep.fail('failing-input', case,
                 f"apply_to_file left the file at {p}: not 0, not EOF, not after a line feed",
                 impl=ia)
        return
    nd = impl.get('apply_nd')
    if nd is not None:
        q = nd.get('pos')
        if 'err' in nd or not (q == 0 or q == len(content) or
                               (0 < q <= len(content) and content[q - 1:q] == b'\n')):
            rep.fail('failing-input', case,
                     f"apply_to_file(fd, destructive=False) {nd}: the file is left neither at 0, "
                     "nor at EOF, nor after a line feed", impl=nd)
            return
        if nd.get('ret') != ia.get('ret'):
            # Lean: C04_nd_returns_same - both forms compute the same offset
            rep.fail('correspondence-broken', case,
                     f"apply_to_file returns {ia.get('ret')} but {nd.get('ret')} with "
                     "destructive=False", impl=nd, model=ia)
            return
    if ma.get('pos') != p:
        rep.fail('correspondence-broken', case, f"apply_to_file: impl={ia} model={ma}",
                 impl=ia, model=ma)


def run(tier, seed, replay_case=None):
    rep = core.Report(PROP, tier, seed)
    core.lean_build()
    aud = core.audit(PROP)
    from vh import bridge
    bridge.check(rep, PROP)
    total = 400 if tier == 'quick' else 6000
    items = []
    corpus = core.load_corpus(PROP) if replay_case is None else [replay_case]
    if corpus:
        items += eval_cases(None, 0, {'fixed': corpus})
    if replay_case is None:
        items += core.run_sharded(eval_cases, seed, total, {'tier': tier})
        # lines around the 1 MiB limit (MaxSearchableLineLengthReached paths): 48 in thorough,
        # 6 in quick
        items += core.run_sharded(eval_cases, seed + 1, 48 if tier == 'thorough' else 6,
                                  {'tier': tier, 'big': True})
    drv = core.Driver()
    mobs = drv.run([it['model_case'] for it in items])
    for it, mo in zip(items, mobs):
        judge(rep, it, mo)
    # the concrete Lean matcher (SkModel.StdTs) against Python re on every window
    small = [case_content(it['case']) for it in items if 'content' in it['case']]
    nwin, nts, ood = K.std_parser_crosscheck(drv, small)
    rep.count('std_parser_windows', nwin)
    rep.count('std_parser_timestamps', nts)
    rep.count('std_parser_out_of_domain', ood)
    rep.assumptions = ["binary file seek/read/tell", "timestamp extraction on the 64-byte "
                       "window is an oracle table (Python re + datetime); for the standard "
                       "format the Lean parser SkModel.StdTs is compared with it on every "
                       "window of every generated content"]
    return rep.finish(aud, RULE)
