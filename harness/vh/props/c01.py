"""
C01 — simple search reports exactly the matching lines, in order, captures intact.

Theorems (lean/SkModel/Theorems/C01.lean) say the model of the search loop yields,
for every unconstrained single-line search, exactly `Spec.simple`; this check ties
the model to /repo: in-process single-file `FileSearcher.run()` against the model
(all results, per tag in order) and against the spec layer (per search).
"""
from vh import core, gen, taskcheck as T

PROP = 'C01'
RULE = ("scenario = one file (0..700 lines from a word vocabulary with lengths around "
        "64/256-byte boundaries, CR, blank lines, optional final LF, non-ASCII) x 1..6 "
        "definitions (1..3 patterns from a pool with 0..3 groups incl. optional groups, "
        "hint on/off, shared/distinct/no tags, store_result_contents on/off, named "
        "fields, occasional sequence definitions and duplicate registrations); "
        "non-trivial = at least one search has both a matching and a non-matching line; "
        "distinct by scenario hash")


def gen_scenario(rng, tier):
    n = gen.n_lines(rng, tier)
    seqish = rng.random() < 0.3
    lines = gen.gen_lines(rng, n, seqish=seqish)
    content = gen.assemble(rng, lines)
    ndefs = rng.choice([1, 1, 2, 2, 3, 4, 6])
    defs = []
    for _ in range(ndefs):
        if rng.random() < 0.12:
            defs.append(gen.gen_seq_def(rng))
        else:
            defs.append(gen.gen_simple_def(rng))
    if rng.random() < 0.12:
        # two DISTINCT search objects with the same patterns, hint and tag: both run, both report
        import copy
        defs.append(copy.deepcopy(rng.choice(defs)))
    regs = [[i, 0] for i in range(len(defs))]
    if rng.random() < 0.15:
        regs.append([rng.randrange(len(defs)), 0])     # same object registered twice
    rng.shuffle(regs)
    scn = {'files': [{'name': 'f0.txt', 'content': content.hex()}],
           'defs': defs, 'regs': regs}
    if rng.random() < 0.3:
        scn['decode_errors'] = rng.choice(['ignore', 'replace', 'backslashreplace'])
    if rng.random() < 0.04:
        scn['files'][0]['content'] = gen.magic_prefixed(rng, content).hex()
        scn['decode_errors'] = rng.choice(['ignore', 'replace', 'backslashreplace'])
    return scn


def nontrivial(item, spec):
    n = item['case']['n']
    return any(0 < len(v) < n for v in spec.values())


def judge(rep, item, mobs):
    scn = item['scn']
    model = T.model_view(item, mobs)
    spec = T.spec_simple_view(item, mobs)
    rep.note_case(scn, nontrivial(item, spec),
                  sample={'scenario': scn, 'impl': item['impl']})
    impl = item['impl']
    rep.count('lines', item['case']['n'])
    if 'err' in impl or 'err' in model:
        rep.count('err_cases')
        if impl.get('err') != model.get('err'):
            rep.fail('failing-input' if 'err' in impl else 'correspondence-broken',
                     scn, f"outcome: impl={impl.get('err', 'returned')} "
                          f"model={model.get('err', 'returned')}",
                     impl=impl, model=model)
        return
    irs = T.impl_results(item)
    rep.count('results', len(irs))
    # spec layer: every simple search identified by a unique tag
    by_tag = {}
    for r in irs:
        by_tag.setdefault(r['tag'], []).append(r)
    for tag, di in T.unique_tag_simple_defs(scn).items():
        want = spec.get(di, [])
        got = [(r['ln'], r['iter']) for r in by_tag.get(tag, [])]
        rep.count('spec_compared')
        if got != [(ln, vs) for ln, vs in want]:
            rep.fail('failing-input', scn,
                     f"search tagged {tag!r}: reported {got[:6]} but the lines it "
                     f"matches are {want[:6]}", impl=irs, spec=want)
            return
    # searches that share a tag (e.g. look-alike search objects): together they report
    # exactly the lines each of them matches, each once per search
    for tag, dis in T.shared_tag_simple_defs(scn).items():
        want = sorted(((ln, vs) for di in dis for ln, vs in spec.get(di, [])), key=repr)
        got = sorted(((r['ln'], r['iter']) for r in by_tag.get(tag, [])), key=repr)
        rep.count('spec_compared_shared_tag')
        if got != [(ln, vs) for ln, vs in want]:
            rep.fail('failing-input', scn,
                     f"the {len(dis)} searches tagged {tag!r} together reported {len(got)} "
                     f"results, the lines they match give {len(want)}: reported {got[:6]}, "
                     f"prescribed {want[:6]}", impl=irs, spec=want)
            return
    diff = T.compare_results(irs, model['results'])
    if diff:
        rep.fail('correspondence-broken', scn, diff, impl=irs, model=model['results'])


def run(tier, seed, replay_case=None):
    rep = core.Report(PROP, tier, seed)
    core.lean_build()
    aud = core.audit(PROP)
    total = 1500 if tier == 'quick' else 20000
    items = []
    corpus = core.load_corpus(PROP) if replay_case is None else [replay_case]
    if corpus:
        items += T.eval_scenarios(None, 0, {'gen': gen_scenario, 'fixed': corpus})
    if replay_case is None:
        items += core.run_sharded(T.eval_scenarios, seed, total,
                                  {'gen': gen_scenario, 'tier': tier})
    mobs = core.Driver().run([it['case'] for it in items])
    for it, mo in zip(items, mobs):
        judge(rep, it, mo)
    rep.assumptions = ["CPython re / bytes.decode / binary-file line iteration behave "
                       "as the oracle tables record them"]
    return rep.finish(aud, RULE)
