"""
C16 — a line passes a since constraint iff its timestamp >= current_date - window.

Theorem side: lean/SkModel/Theorems/C16.lean (`civil_order`: lexicographic datetime
order = order of seconds on Python's proleptic Gregorian ordinal; `C16_pass_iff`;
counters).  Correspondence: the real `SearchConstraintSearchSince.apply_to_line`,
`.since_date`, `.stats()` against the model; Python's `since_date` is additionally
checked against the Lean calendar (`toSeconds since = toSeconds cur - window`), which is
what ties `timedelta` subtraction to the model.
"""
from datetime import datetime, timedelta

from vh import core

PROP = 'C16'
RULE = ("case = current_date (random, or at day/month/year/leap/century boundaries 1900/"
        "2000/2100/2024-02-29) x days in {omitted,0,1,2,7,30,365,3650,-1} x hours in "
        "{omitted,0,1,24,100,10000} x matcher variant (single pattern, several patterns, "
        "derived field) x 4..40 lines whose timestamps are exactly on, one second before / "
        "after, or far from the boundary, plus undated and look-alike lines; in 15% of the cases the same "
        "constraint object is applied to a FILE in between (it is then also a file-level "
        "constraint); non-trivial = "
        "the lines include a pass, a fail and an undecidable one; distinct by case hash")

SPECIAL = ['2024-03-01 00:00:00', '2024-02-29 12:00:00', '2023-03-01 00:00:00',
           '2023-01-01 00:00:00', '2023-12-31 23:59:59', '2000-03-01 00:00:00',
           '2000-02-29 23:59:59', '2100-03-01 00:00:00', '2001-01-01 00:00:00',
           '2024-12-31 00:00:00', '2023-07-01 00:00:01']
SPECIAL_STD = ['1900-03-01 00:00:00', '1900-02-28 23:59:59', '1999-12-31 23:59:59',
               '2400-02-29 00:00:00', '1600-03-01 06:00:00', '9000-01-01 00:00:00']


def civil(dt):
    return [dt.year, dt.month, dt.day, dt.hour, dt.minute, dt.second]


def gen_case(rng, tier):
    from vh import matchers
    kind = rng.choice(['std', 'std', 'multi', 'derived', 'ampm', 'nosec', 'loose', 'subbrk',
                       'frac'])
    r = rng.random()
    if r < 0.5:
        cur = datetime.strptime(rng.choice(SPECIAL + (SPECIAL_STD if kind != 'derived' else [])),
                                '%Y-%m-%d %H:%M:%S')
    else:
        lo, hi = (2001, 2098) if kind == 'derived' else (1200, 9000)
        cur = datetime(rng.randrange(lo, hi), rng.randrange(1, 13), rng.randrange(1, 29),
                       rng.randrange(24), rng.randrange(60), rng.randrange(60))
    kw = {}
    if rng.random() < 0.6:
        kw['days'] = rng.choice([0, 1, 2, 7, 30, 365, 3650, -1])
    if rng.random() < 0.6:
        kw['hours'] = rng.choice([0, 1, 24, 100, 10000])
    if rng.random() < 0.12:
        # a period that is not a whole number of days / hours (whole seconds all the same)
        kw.pop('days', None)
        kw.pop('hours', None)
        kw[rng.choice(['days', 'hours'])] = rng.choice([0.5, 1.5, 0.25, 36.5, 2.75])
    days = kw.get('days', 0)
    hours = 0 if days else kw.get('hours', 24)
    if kind == 'nosec':
        cur = cur.replace(second=0)
    since = cur - timedelta(days=days, hours=hours)
    lines = []
    for _ in range(rng.randrange(4, 40 if tier == 'quick' else 120)):
        q = rng.random()
        if q < 0.45:
            t = since + timedelta(seconds=rng.choice([0, 0, -1, 1, -2, 2, 60, -60, 86400,
                                                      -86400, -86401, 86399]))
        elif q < 0.7:
            t = since + timedelta(seconds=rng.randrange(-400 * 86400, 400 * 86400))
        elif q < 0.8:
            t = cur + timedelta(seconds=rng.choice([0, -1, 1]))
        else:
            t = None
        if t is not None and kind == 'derived' and not 2000 <= t.year <= 2099:
            t = None
        if t is not None and not 1000 <= t.year <= 9999:
            t = None
        if t is not None and kind == 'nosec':
            t = t.replace(second=0) + timedelta(minutes=rng.choice([0, 0, 1, -1]))
        if t is not None and kind in ('ampm', 'nosec') and rng.random() < 0.3:
            t = t.replace(hour=rng.choice([0, 12]), minute=rng.choice([0, 30]))
        if t is not None and rng.random() < 0.08:
            # that moment with its seconds / minutes just out of range: not a timestamp
            lines.append(matchers.near_miss(kind, t, rng) + ' msg')
        elif t is None:
            lines.append(rng.choice(['', 'no timestamp here', '2023-02-30 00:00:00 x',
                                     ' 2023-01-01 00:00:00 leading space', '2023-01-01',
                                     'x' * 70, '0000-00-00 00:00:00', '2023-01-01 24:00:00',
                                     '[31/02/2023 00:00:00] y', '13/01/23 00:00:00']))
        else:
            lines.append(matchers.fmt_ts(kind, t, rng) + rng.choice(['', ' msg', ' \n', '\n']))
    case = {'cur': cur.strftime('%Y-%m-%d %H:%M:%S'), 'kw': kw, 'matcher': kind,
            'lines': lines}
    if rng.random() < 0.15:
        case['file_at'] = rng.randrange(1, len(lines) + 1)
    if rng.random() < 0.2:
        # debug logging switched on by the application: every log record is really formatted
        case['debug_log'] = True
    return case


def run_impl(case):
    core.import_searchkit()
    with core.debug_logging(case.get('debug_log', False)):
        return run_impl_(case)


def run_impl_(case):
    from searchkit.constraints import SearchConstraintSearchSince, CouldNotApplyConstraint
    from vh import matchers
    c = SearchConstraintSearchSince(current_date=case['cur'],
                                    ts_matcher_cls=matchers.MATCHERS[case['matcher']],
                                    **case['kw'])
    outs = []
    for k, ln in enumerate(case['lines']):
        if case.get('file_at') == k:
            # the same constraint object is also the file-level constraint of some file
            # (FileSearcher(constraint=c) + SearchDef(constraints=[c])): the line counters keep
            # describing the lines decided so far
            import tempfile
            with tempfile.NamedTemporaryFile(prefix='vh-') as f:
                f.write(b'2001-01-01 00:00:00 old\n' + case['cur'].encode() + b' new\n')
                f.flush()
                with open(f.name, 'rb') as fd:
                    try:
                        c.apply_to_file(fd)
                    except Exception:  # pylint: disable=broad-except
                        pass
        try:
            outs.append('p' if c.apply_to_line(ln) else 'f')
        except CouldNotApplyConstraint:
            outs.append('u')
        except Exception as e:  # pylint: disable=broad-except
            outs.append('other:' + type(e).__name__)
    st = c.stats()
    return {'outs': outs, 'since': civil(c.since_date),
            'pass': st['line']['pass'], 'fail': st['line']['fail']}


def eval_cases(rng, count, extra):
    from vh import matchers
    fixed = extra.get('fixed')
    todo = fixed if fixed is not None else [None] * count
    out = []
    for item in todo:
        case = item if item is not None else gen_case(rng, extra.get('tier', 'quick'))
        impl = run_impl(case)
        cur = datetime.strptime(case['cur'], '%Y-%m-%d %H:%M:%S')
        days = case['kw'].get('days', 0)
        hours = 0 if days else case['kw'].get('hours', 24)
        ts = [matchers.oracle_ts(case['matcher'], ln) for ln in case['lines']]
        item = {'case': case, 'impl': impl}
        if isinstance(days, float) or isinstance(hours, float):
            # the model's window is an integer number of days / hours; for a fractional period
            # the window in seconds is computed here (the same rule: days if non-zero, otherwise
            # hours) and the model is only used as the calendar
            item['window_secs'] = int(timedelta(days=days, hours=hours or 0).total_seconds())
            days, hours = 0, 0
        item['model_case'] = {'kind': 'since', 'cur': civil(cur), 'since': impl['since'],
                              'days': days, 'hours': hours or 0,
                              'lines': [civil(t) if t else None for t in ts]}
        out.append(item)
    return out


def judge(rep, item, mobs):
    case, impl = item['case'], item['impl']
    m = mobs['model']
    rep.note_case(case, {'p', 'f', 'u'} <= set(impl['outs']),
                  sample={'case': case, 'impl': impl})
    rep.count('lines', len(case['lines']))
    for k in ('p', 'f', 'u'):
        rep.count('out_' + k, impl['outs'].count(k))
    boundary = m['curSecs'] - item.get('window_secs', m['window'])
    if 'window_secs' in item:
        rep.count('fractional_period_cases')
    # the property, with the Lean calendar as the time line
    want = []
    for ls in m['lineSecs']:
        if ls is None:
            want.append('u')
        else:
            if not ls[0]:
                raise core.Infra("oracle produced an invalid civil date")
            want.append('p' if ls[1] >= boundary else 'f')
            if ls[1] == boundary:
                rep.count('exactly_on_boundary')
    if impl['outs'] != want:
        i = next(k for k, (a, b) in enumerate(zip(impl['outs'], want)) if a != b)
        rep.fail('failing-input', case,
                 f"line {i} {case['lines'][i]!r}: apply_to_line -> {impl['outs'][i]}, "
                 f"prescribed {want[i]} (line at {m['lineSecs'][i]}, boundary {boundary})",
                 impl=impl, spec=want)
        return
    decided = sum(1 for w in want if w != 'u')
    if impl['pass'] != want.count('p') or impl['fail'] != want.count('f') or \
            impl['pass'] + impl['fail'] != decided:
        rep.fail('failing-input', case,
                 f"counters pass={impl['pass']} fail={impl['fail']} but {want.count('p')} "
                 f"lines passed and {want.count('f')} failed", impl=impl, spec=want)
        return
    if not (m['curValid'] and m['sinceValid']) or m['sinceSecs'] != boundary:
        rep.fail('correspondence-broken', case,
                 f"since_date {impl['since']} is not current_date - window on the model's "
                 f"calendar (since {m['sinceSecs']} vs {boundary})", impl=impl, model=m)
        return
    if impl['outs'] != m['outs'] or impl['pass'] != m['pass'] or impl['fail'] != m['fail']:
        rep.fail('correspondence-broken', case, "apply_to_line outcomes differ from the model",
                 impl=impl, model=m)


def run(tier, seed, replay_case=None):
    rep = core.Report(PROP, tier, seed)
    core.lean_build()
    aud = core.audit(PROP)
    from vh import bridge
    bridge.check(rep, PROP)
    total = 5000 if tier == 'quick' else 200000
    items = []
    corpus = core.load_corpus(PROP) if replay_case is None else [replay_case]
    if corpus:
        items += eval_cases(None, 0, {'fixed': corpus})
    if replay_case is None:
        items += core.run_sharded(eval_cases, seed, total, {'tier': tier})
    mobs = core.Driver().run([it['model_case'] for it in items])
    for it, mo in zip(items, mobs):
        judge(rep, it, mo)
    rep.assumptions = ["timestamp extraction (regex + int conversion) is an oracle computed "
                       "with Python re/datetime independently of searchkit",
                       "datetime.strptime of current_date"]
    return rep.finish(aud, RULE)
