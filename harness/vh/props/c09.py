"""
C09 — path registration searches exactly the denoted files, capped by logrotate depth.

Theorem side: lean/SkModel/Theorems/C09.lean (stable sort + cap keeps the lowest keys,
plain and live files always kept, non-files ignored, one entry per path carrying all
searches).  Correspondence: real temporary directories populated by the generator,
registered as file / directory / glob, alone and overlapping; observed
`FileSearcher.files`, the catalog entries, and (for a sample) the paths present in the
results of a search that matches every line.
"""
import glob
import gzip
import os
import re
import shutil
import tempfile

from vh import core

PROP = 'C09'
RULE = ("case = directory population (plain files, *.log, *.log.N, *.log.N.gz with arbitrary "
        "N sets incl. gaps, multi-digit N and N / N.gz ties, 1..3 stems incl. stems with extra "
        "dots, sub-directories incl. ones named like logs, dot-files) x 1..3 registrations "
        "(file / directory / glob forms, overlapping) x max_logrotate_depth 0..9; 10% of the "
        "populations add names outside the four classes (a.logger, a.log.old, ...) where only "
        "impl = model is required; non-trivial = some stem has more rotated copies than the "
        "depth and the population has a plain or live file; distinct by case hash")

STEMS = ['sys', 'app', 'a.b', 'kern-1', 'x_y']
PLAIN = ['notes', 'readme.txt', 'data.json', '.hidden', 'log', 'catalog', 'x.lo', 'y.txt.1']
ODD = ['a.logger', 'a.log.old', 'b.log.1.bz2', 'c.log.', 'd.log.1.g', 'e.log.x1', 'f.log.1.gz.1']


ODD_PATHS = ['/d/' + n for n in ODD] + [
    '/d/a.log\n', '/d/a.log.3\n', '/d/a.log.3.gz\n', '/d/a.log.3.g', '/d/x y.log', '/d/x.log y',
    ' /d/a.log', '/d/.log', '.log', 'a.log', '/d/a.log.log', '/d/a.log.1.log.2', '/d/a.log.007',
    '/d/a.log.1.gz.gz', '/d/a.log.12x', '/d/a.log.x12', '/d/a.logs', '/d/alog', '/d/a.lo',
    '/d.log/a', '/d.log/a.log.1', '/d/a.log.1 .gz', '/d/\u00a0a.log', '/d/a\tb.log.1',
    '/d/a.log.', '/d/a.log..1', '/d/a.log.1.', '/d/a.LOG', '/d/a.log.1.GZ', '', 'x']


def gen_case(rng, tier):
    names, dirs = [], []
    for stem in rng.sample(STEMS, rng.choice([1, 1, 2, 3])):
        if rng.random() < 0.8:
            names.append(stem + '.log')
        ns = set()
        for _ in range(rng.choice([0, 1, 3, 5, 9, 12])):
            ns.add(rng.choice([1, 2, 3, 4, 5, 6, 7, 8, 9, 10, 11, 12, 20, 100, 0]))
        for n in ns:
            r = rng.random()
            if r < 0.45:
                names.append(f'{stem}.log.{n}')
            elif r < 0.9:
                names.append(f'{stem}.log.{n}.gz')
            else:
                names += [f'{stem}.log.{n}', f'{stem}.log.{n}.gz']       # a tie
        if rng.random() < 0.25:
            # un-numbered / oddly suffixed copies of the SAME log: they share the stem's depth
            # budget but sort after every numbered copy
            names += [stem + sfx for sfx in rng.sample(
                ['.log.gz', '.log.g', '.log.old', '.log.tar.gz', '.log.1.bak', '.log.02',
                 '.log.bak.1'], rng.choice([1, 2]))]
    names += rng.sample(PLAIN, rng.choice([0, 1, 2, 3]))
    if rng.random() < 0.1:
        names += rng.sample(ODD, rng.choice([1, 2]))
    for d in rng.sample(['sub', 'old.log.1', 'dir.log', 'z'], rng.choice([0, 1, 2])):
        if d not in names:
            dirs.append(d)
    names = sorted(set(names))
    rng.shuffle(names)
    links = []
    if names and rng.random() < 0.25:
        for ln in rng.sample(['latest.log', 'current', 'sys.log.0', 'alias.txt'], rng.choice([1, 2])):
            links.append([ln, rng.choice(names)])
    regs = []
    for _ in range(rng.choice([1, 1, 2, 3])):
        r = rng.random()
        if r < 0.4:
            regs.append({'form': 'dir'})
        elif r < 0.75:
            regs.append({'form': 'glob', 'pattern': rng.choice(['*', '*.log*', 'sys*', '*.log',
                                                                '*.log.?', '*.gz', 'a*', '[a-s]*',
                                                                '*/', '*.log/'])})
        elif names and rng.random() < 0.12:
            # a file name with a trailing slash denotes nothing
            regs.append({'form': 'glob', 'pattern': rng.choice(names) + '/'})
        elif names:
            regs.append({'form': 'file', 'name': rng.choice(names)})
        else:
            regs.append({'form': 'dir'})
    nested = None
    if rng.random() < 0.15:
        # the SAME log names in several sibling directories, reached through ONE glob with a
        # wild card in the directory part: each directory's log has its own depth budget
        stem = rng.choice(STEMS)
        nn = [f'{stem}.log'] if rng.random() < 0.7 else []
        for n in rng.sample(range(1, 9), rng.choice([2, 3, 5])):
            nn.append(f'{stem}.log.{n}' + ('.gz' if rng.random() < 0.5 else ''))
        nested = {'dirs': ['h0', 'h1', 'h2', 'h3'][:rng.choice([2, 3, 4])], 'names': nn}
        regs.append({'form': 'glob', 'pattern': rng.choice(['*/*', f'*/{stem}.log*', 'h?/*.log.*',
                                                            f'h*/{stem}*'])})
    # which search object each registration uses: sometimes the SAME search is registered
    # through several (overlapping) paths
    if rng.random() < 0.35:
        def_of = [rng.randrange(max(1, len(regs) - 1)) for _ in regs]
    else:
        def_of = list(range(len(regs)))
    return {'names': names, 'dirs': dirs, 'regs': regs, 'def_of': def_of, 'links': links,
            'nested': nested,
            'decoy': rng.choice([0, 1, 2, 7, 12]) if rng.random() < 0.3 else None,
            'spell': rng.choice([None, None, None, '//', '/./']),
            'same_tag': rng.random() < 0.25,
            'depth': rng.choice([0, 1, 2, 3, 7, 7, 9]),
            'run_search': rng.random() < (0.3 if links or len(set(def_of)) < len(regs) else 0.08)}


# ---- the harness's own reading of a name (no `re` on this path) -------------------------

def classify(path):
    """ -> (cls, stem, key) for the four well-formed classes, None for anything else """
    base = os.path.basename(path)
    i = base.rfind('.log')
    if i <= 0 or any(c.isspace() for c in path) or '.log' in os.path.dirname(path):
        if '.log' not in base[1:] and not any(c.isspace() for c in path) and \
                '.log' not in os.path.dirname(path):
            return ('plain', None, 100000)
        return None
    stem_path = path[:len(path) - len(base) + i]
    rest = base[i + 4:]
    if base.count('.log') != 1:
        return None
    if rest == '':
        return ('live', stem_path, 0)
    parts = rest.split('.')
    if len(parts) == 2 and parts[0] == '' and parts[1].isascii() and parts[1].isdigit():
        return ('rotated', stem_path, int(parts[1]))
    if len(parts) == 3 and parts[0] == '' and parts[1].isascii() and parts[1].isdigit() \
            and parts[2] == 'gz':
        return ('rotated', stem_path, int(parts[1]))
    return None


FILTERS = [r"\S+\.log$", r"\S+\.log\.(\d+)$", r"\S+\.log\.(\d+)\.gz?$"]


def classify_re(path):
    """ the regexes of search.py applied literally (used for names outside the classes) """
    m = re.compile(r"(\S+)\.log\S*").match(path)
    key = 100000
    for f in FILTERS:
        r = re.compile(f).match(path)
        if r:
            key = int(r.group(1)) if r.groups() else 0
            break
    if not m:
        return ('plain', None, key)
    if path.endswith('.log'):
        return ('live', m.group(1), key)
    return ('rotated', m.group(1), key)


def entry(path):
    c = classify(path)
    wf = c is not None
    c2 = classify_re(path)
    if wf and c != c2:
        raise core.Infra(f"harness classifier and the regexes disagree on {path}: {c} {c2}")
    cls, stem, key = c2
    return {'path': path, 'isfile': os.path.isfile(path), 'cls': cls, 'stem': stem or '',
            'key': key, 'wf': wf}


def run_impl(case):
    core.import_searchkit()
    from searchkit import FileSearcher, SearchDef
    tmp = tempfile.mkdtemp(prefix='vh-')
    d = os.path.join(tmp, 'logs')
    os.mkdir(d)
    try:
        for n in case['names']:
            p = os.path.join(d, n)
            data = f"line of {n}\nsecond\n".encode()
            with open(p, 'wb') as f:
                f.write(gzip.compress(data) if n.endswith('.gz') else data)
        for ln, tgt in case.get('links', []):
            # a symbolic link to one of the files: a regular file under its own name
            if tgt in case['names'] and ln not in case['names']:
                os.symlink(os.path.join(d, tgt), os.path.join(d, ln))
        for n in case['dirs']:
            os.mkdir(os.path.join(d, n))
            with open(os.path.join(d, n, 'inner.log'), 'w') as f:
                f.write('x\nsecond\n')
        if case.get('nested'):
            for h in case['nested']['dirs']:
                os.mkdir(os.path.join(d, h))
                for n in case['nested']['names']:
                    data = f"line of {h}/{n}\nsecond\n".encode()
                    with open(os.path.join(d, h, n), 'wb') as f:
                        f.write(gzip.compress(data) if n.endswith('.gz') else data)
        # the user may spell the directory non-canonically (// or /./): every registration
        # form must file a given file under the same key
        dsp = d if not case.get('spell') else tmp + case['spell'] + 'logs'
        def_of = case.get('def_of') or list(range(len(case['regs'])))
        # 'same_tag': distinct search objects that look alike (same pattern, same tag) are still
        # distinct searches: each is run on every file it is registered for
        defs = [SearchDef(r'.*', tag='t0' if case.get('same_tag') else f't{i}')
                for i in range(len(case['regs']))]
        if case.get('decoy') is not None:
            # ANOTHER searcher of the same process registered the same paths earlier, with
            # another depth: what it saw must not leak into this one
            decoy = FileSearcher(max_logrotate_depth=case['decoy'])
            for i, r in enumerate(case['regs']):
                dpath = dsp if r['form'] == 'dir' else \
                    os.path.join(dsp, r['name'] if r['form'] == 'file' else r['pattern'])
                decoy.add(SearchDef(r'.*', tag='decoy'), dpath)
        fs = FileSearcher(max_logrotate_depth=case['depth'])
        regs_out = []
        for i, r in enumerate(case['regs']):
            if r['form'] == 'dir':
                path, kind = dsp, 'dir'
                listing = [os.path.join(dsp, x) for x in os.listdir(d)]
            elif r['form'] == 'file':
                path, kind = os.path.join(dsp, r['name']), 'file'
                listing = []
            else:
                path, kind = os.path.join(dsp, r['pattern']), 'other'
                listing = glob.glob(path)
            alone = FileSearcher(max_logrotate_depth=case['depth'])
            alone.add(defs[def_of[i]], path)
            fs.add(defs[def_of[i]], path)
            regs_out.append({'search': def_of[i], 'path': os.path.relpath(path, d), 'kind': kind,
                             'entries': [dict(entry(x), path=os.path.relpath(x, d)) |
                                         {'stem': os.path.relpath(entry(x)['stem'], d)
                                          if entry(x)['stem'] else ''} for x in listing],
                             'alone': [os.path.relpath(x, d) for x in alone.files]})
        id_index = {df.id: i for i, df in enumerate(defs)}
        out = {'regs': regs_out, 'files': [os.path.relpath(x, d) for x in fs.files],
               'entries': [[os.path.relpath(e['path'], d), [id_index[s.id] for s in e['searches']]]
                           for e in fs.catalog]}
        if case.get('run_search') and fs.files:
            limit = core.MULTI_LIMIT
            try:
                with core.time_limit(limit):
                    res = fs.run()
                per = {}
                for p in res.files:
                    tags = {}
                    for x in res.find_by_path(p):
                        tags[x.tag] = tags.get(x.tag, 0) + 1
                    per[os.path.relpath(p, d)] = tags
                out['searched'] = per
            except core.CaseTimeout:
                core.kill_children()
                out['searched'] = 'hang'
            except Exception as e:  # pylint: disable=broad-except
                out['searched'] = 'raised ' + type(e).__name__
        return out
    finally:
        shutil.rmtree(tmp, ignore_errors=True)


def eval_cases(rng, count, extra):
    fixed = extra.get('fixed')
    todo = fixed if fixed is not None else [None] * count
    out = []
    for item in todo:
        case = item if item is not None else gen_case(rng, extra.get('tier', 'quick'))
        try:
            impl = run_impl(case)
        except core.Infra:
            raise
        except Exception as e:  # pylint: disable=broad-except
            impl = {'crash': type(e).__name__ + ': ' + str(e)[:200]}
        out.append({'case': case, 'impl': impl})
    return out


def spec_check(case, impl):
    depth = case['depth']
    for r in impl['regs']:
        got = r['alone']
        if r['kind'] == 'file':
            if got != [r['path']]:
                return f"registering the file {r['path']} gives files {got}"
            continue
        ents = r['entries']
        files = [e for e in ents if e['isfile']]
        if not all(e['wf'] for e in ents):
            # names outside the stated classes are present (un-numbered or oddly suffixed
            # copies): what the property still says about the NUMBERED copies of a log - they
            # are kept lowest number first, and nothing un-numbered displaces one of them
            if len(set(got)) != len(got) or not set(got) <= {e['path'] for e in files}:
                return f"{r['kind']} {r['path']}: lists {got}, not a duplicate-free subset of the files"
            for s in {e['stem'] for e in files if e['cls'] == 'rotated'}:
                R = [e for e in files if e['cls'] == 'rotated' and e['stem'] == s]
                N = [e for e in R if e['wf'] and e['key'] < 100000]
                KN = [e for e in N if e['path'] in got]
                DN = [e for e in N if e['path'] not in got]
                KU = [e for e in R if e not in N and e['path'] in got]
                if len(KN) + len(KU) > depth:
                    return (f"{r['kind']} {r['path']}: {len(KN) + len(KU)} copies of {s}.log kept, "
                            f"depth is {depth}")
                if KN and DN and max(e['key'] for e in KN) > min(e['key'] for e in DN):
                    return (f"{r['kind']} {r['path']}: kept {sorted(e['path'] for e in KN)} but "
                            f"dropped the lower-numbered {sorted(e['path'] for e in DN)}")
                if DN and KU:
                    return (f"{r['kind']} {r['path']}: the un-numbered {sorted(e['path'] for e in KU)} "
                            f"kept while the numbered {sorted(e['path'] for e in DN)} was dropped "
                            f"(depth {depth})")
            continue
        if len(set(got)) != len(got):
            return f"{r['kind']} {r['path']}: a file is listed twice: {got}"
        known = {e['path'] for e in files}
        if not set(got) <= known:
            return (f"{r['kind']} {r['path']}: {sorted(set(got) - known)} are not regular files "
                    "denoted by the path")
        for e in files:
            if e['cls'] in ('plain', 'live') and e['path'] not in got:
                return f"{r['kind']} {r['path']}: {e['cls']} file {e['path']} is not searched"
        stems = {e['stem'] for e in files if e['cls'] == 'rotated'}
        for s in stems:
            R = [e for e in files if e['cls'] == 'rotated' and e['stem'] == s]
            K = [e for e in R if e['path'] in got]
            D = [e for e in R if e['path'] not in got]
            if len(K) != min(depth, len(R)):
                return (f"{r['kind']} {r['path']}: {len(K)} rotated copies of {s}.log kept, "
                        f"expected min(depth={depth}, {len(R)})")
            if K and D and max(e['key'] for e in K) > min(e['key'] for e in D):
                return (f"{r['kind']} {r['path']}: kept {sorted(e['path'] for e in K)} but "
                        f"dropped the lower-numbered {sorted(e['path'] for e in D)}")
    # combined: one entry per path, all searches registered for it, in order
    want = {}
    order = []
    for r in impl['regs']:
        for p in r['alone']:
            if p not in want:
                want[p] = []
                order.append(p)
            want[p].append(r['search'])
    if impl['files'] != order:
        return f"files {impl['files']} differ from the union of the registrations {order}"
    if impl['entries'] != [[p, want[p]] for p in order]:
        return f"catalog entries {impl['entries']} but registrations give {[[p, want[p]] for p in order]}"
    if 'searched' in impl:
        if not isinstance(impl['searched'], dict):
            return f"run() {impl['searched']}"
        for p, ss in want.items():
            got = impl['searched'].get(p, {})
            exp = {}
            for s in set(ss):
                t = 't0' if case.get('same_tag') else f't{s}'
                exp[t] = exp.get(t, 0) + 2             # every file has two lines
            if got != exp:
                return (f"path {p}: matches per search {got}, expected each registered search "
                        f"once per line: {exp}")
    return None


def model_case(case, impl):
    return {'kind': 'catalog', 'depth': case['depth'],
            'regs': [{'search': r['search'], 'path': r['path'], 'kind': r['kind'],
                      'entries': r['entries']} for r in impl['regs']]}


def judge(rep, item, mobs):
    case, impl = item['case'], item['impl']
    if 'crash' in impl:
        rep.note_case(case, False)
        rep.fail('failing-input', case, f"registration raised {impl['crash']}", impl=impl)
        return
    per_stem = {}
    for n in case['names']:
        c = classify('/d/' + n)
        if c and c[0] == 'rotated':
            per_stem[c[1]] = per_stem.get(c[1], 0) + 1
    nontriv = any(v > case['depth'] for v in per_stem.values()) and \
        any((classify('/d/' + n) or ('?',))[0] in ('plain', 'live') for n in case['names'])
    rep.note_case(case, nontriv, sample={'case': case, 'files': impl['files']})
    for r in impl['regs']:
        rep.count('reg_' + r['kind'])
    if 'searched' in impl:
        rep.count('with_search_run')
    bad = spec_check(case, impl)
    if bad:
        rep.fail('failing-input', case, bad, impl=impl)
        return
    m = mobs['model']
    alone = [r['alone'] for r in impl['regs']]
    if m['expansions'] != alone or m['files'] != impl['files'] or \
            [[p, ss] for p, ss in m['entries']] != impl['entries']:
        rep.fail('correspondence-broken', case,
                 f"expansions impl={alone} model={m['expansions']}; files impl={impl['files']} "
                 f"model={m['files']}", impl=impl, model=m)


def run(tier, seed, replay_case=None):
    rep = core.Report(PROP, tier, seed)
    core.lean_build()
    aud = core.audit(PROP)
    from vh import bridge
    bridge.check(rep, PROP)
    total = 800 if tier == 'quick' else 10000
    items = []
    corpus = core.load_corpus(PROP) if replay_case is None else [replay_case]
    if corpus:
        items += eval_cases(None, 0, {'fixed': corpus})
    if replay_case is None:
        items += core.run_sharded(eval_cases, seed, total, {'tier': tier})
    drv = core.Driver()
    mobs = drv.run([model_case(it['case'], it['impl']) if 'crash' not in it['impl']
                    else {'kind': 'catalog', 'depth': 0, 'regs': []} for it in items])
    # the regexes of search.py hand-modelled in Lean (SkModel.NameRx) vs Python's re, on
    # every name met plus a stream of odd names; a disagreement is a defect of the model
    names = sorted({'/d/' + n for it in items for n in it['case']['names']} | set(ODD_PATHS))
    for nm, (cls, stem, key) in zip(names, drv.run([{'kind': 'namerx', 'names': names}])[0]['model']):
        c2 = classify_re(nm)
        if (cls, stem, key) != (c2[0], c2[1], c2[2]):
            raise core.Infra(f"SkModel.NameRx disagrees with Python re on {nm!r}: "
                             f"lean={(cls, stem, key)} re={c2}")
    rep.extra['names_checked_against_lean_regex_model'] = len(names)
    for it, mo in zip(items, mobs):
        judge(rep, it, mo)
    rep.assumptions = ["os.path.isfile / os.listdir / glob.glob say what a path denotes",
                       "the three regular expressions of search.py are represented by their "
                       "result per name (checked against an independent string classifier on "
                       "well-formed names)"]
    return rep.finish(aud, RULE)
