"""
C04 — a file-level since constraint starts exactly at the first in-window line.

Theorem side: lean/SkModel/Theorems/C04.lean.  Correspondence: unit level
(`apply_to_file` return value and `fd.tell()`) and API level
(`FileSearcher(constraint=c).run()` against the plain search of the expected suffix and
against seeker model + task model), on time-ordered logs; an out-of-hypothesis stream
(unordered, long undated runs, timestamps spilling over a line end) only requires
impl = model.
"""
from vh import core, gen, seekcheck as K, scenario as S, taskcheck as T

PROP = 'C04'
RULE = ("case = time-ordered log (0..60 lines quick; line lengths around 64/256-byte "
        "multiples, equal timestamps, undated/empty lines in runs of 0..40 (thorough up to "
        "520), with/without final LF, three matcher variants) x since date before / between "
        "/ equal to / after the timestamps x 1..3 searches; 25% of the cases are outside the "
        "hypotheses (unordered, long runs) where only impl = model is required; non-trivial "
        "= in-hypothesis, >= 3 dated lines and the expected position is neither 0 nor EOF; "
        "distinct by case hash")


def gen_case(rng, tier):
    kind = rng.choice(['std', 'std', 'multi', 'derived', 'subbrk'])
    out_of_hyp = rng.random() < 0.25
    n = rng.choice([0, 1, 2, 3, 5, 8, 13, 30, 60])
    max_run = 40
    if tier == 'thorough' and rng.random() < 0.1:
        max_run = rng.choice([200, 497, 498, 499, 500, 520])
    content, times = K.gen_log(rng, n, kind, ordered=not (out_of_hyp and rng.random() < 0.7),
                               undated=rng.choice([0.0, 0.15, 0.4]), max_run=max_run,
                               longs=rng.choice([0.1, 0.3, 0.6]),
                               lookalike=0.15 if rng.random() < 0.2 else 0.0)
    cons = K.gen_since(rng, times, kind)
    defs = [gen.gen_simple_def(rng) for _ in range(rng.choice([1, 1, 2]))]
    if rng.random() < 0.2:
        defs.append(gen.gen_seq_def(rng))
    scn = {'files': [{'name': 'f0.log', 'content': content.hex()}], 'defs': defs,
           'regs': [[i, 0] for i in range(len(defs))], 'constraints': [cons], 'global': 0}
    if rng.random() < 0.3:
        # the same constraint object applied again after the path was rewritten
        c2, _ = K.gen_log(rng, rng.choice([1, 3, 8, 20]), kind, ordered=True,
                          undated=0.2, longs=0.2)
        scn['_second'] = c2.hex()
    return scn


def eval_cases(rng, count, extra):
    consts = K.live_constants()
    fixed = extra.get('fixed')
    todo = fixed if fixed is not None else [None] * count
    out = []
    for item in todo:
        scn = item if item is not None else gen_case(rng, extra.get('tier', 'quick'))
        content = S.file_bytes(scn['files'][0])
        cons = scn['constraints'][scn['global']]
        unit = K.impl_apply(content, cons)
        api = S.run_impl({k: v for k, v in scn.items() if not k.startswith('_')})
        item = {'scn': scn, 'unit': unit, 'api': api, 'consts': consts,
                'seek_case': K.seek_case(content, cons, [['apply']], consts)}
        if scn.get('_second'):
            c2 = bytes.fromhex(scn['_second'])
            item['twice'] = K.impl_apply_twice(content, c2, cons)
            item['seek_case2'] = K.seek_case(c2, cons, [['apply']], consts)
        out.append(item)
    return out


def in_hyps(hyps, consts):
    # exactly the hypotheses of Sk.C04_position_tight, plus "a line's timestamp lies
    # within the line" (windowOk) which makes the window oracle the line's own timestamp
    return (hyps['monotone'] and hyps['windowOk'] and hyps['emptyUndated'] and
            hyps['endUndated'] and hyps['undatedRun'] + 1 <= consts['ATT'] and
            hyps['longestLine'] <= (consts['EXP'] - 1) * consts['H'])


def suffix_run(scn, pos):
    """ the real code on the expected suffix, without the constraint (what C04 prescribes) """
    content = S.file_bytes(scn['files'][0])
    s2 = dict(scn)
    s2['files'] = [{'name': scn['files'][0]['name'], 'content': content[pos:].hex()}]
    s2['global'] = None
    return S.run_impl(s2)


def second_pass(items, mobs):
    """ worker-side: suffix runs and task cases need the positions from the first pass """
    out = []
    for it, mo in zip(items, mobs):
        o = mo['model']['outs'][0]
        hyps_ok = in_hyps(o['hyps'], it['consts'])
        mpos = o['apply'].get('pos')
        extra = {'hyps_ok': hyps_ok, 'spec_pos': o['spec'], 'model_apply': o['apply'],
                 'hyps': o['hyps']}
        if hyps_ok:
            extra['suffix'] = suffix_run(it['scn'], o['spec'])
        if mpos is not None:
            case, intern = S.task_case(it['scn'], 0, start=mpos)
            extra['task_case'] = case
            extra['vals'] = intern.val
        out.append(extra)
    return out


def _second_pass_shard(_rng, _count, extra):
    return second_pass(extra['items'], extra['mobs'])


def judge(rep, it, ex, tmo):
    scn, unit, api = it['scn'], it['unit'], it['api']
    content = S.file_bytes(scn['files'][0])
    spec_pos = ex['spec_pos']
    nontriv = ex['hyps_ok'] and 0 < spec_pos < len(content) and \
        len([1 for e in it['seek_case']['ts'] if content[e[0] - 1:e[0]] in (b'', b'\n')]) >= 3
    rep.note_case(scn, nontriv, sample={'scenario': scn, 'unit': unit, 'spec_pos': spec_pos})
    rep.count('in_hyps' if ex['hyps_ok'] else 'out_of_hyps')
    if 'err' in unit:
        rep.fail('failing-input', scn, f"apply_to_file raised {unit['err']}", impl=unit)
        return
    if ex['hyps_ok']:
        rep.count('pos_' + ('0' if spec_pos == 0 else 'eof' if spec_pos == len(content)
                            else 'mid'))
        if unit['pos'] != spec_pos:
            rep.fail('failing-input', scn,
                     f"apply_to_file left the file at {unit['pos']}; the first line at or "
                     f"after the since date starts at {spec_pos} (len {len(content)})",
                     impl=unit, spec=spec_pos)
            return
        if S.pub(api) != S.pub(ex['suffix']) and not ('err' in api and 'err' in ex['suffix']):
            a, b = dict(api), dict(ex['suffix'])
            # searches/searches_by_job are equal; lines/results must be too
            rep.fail('failing-input', scn,
                     "results with the constraint differ from the plain search of the "
                     f"suffix starting at {spec_pos}", impl=a, spec=b)
            return
    if 'twice' in it:
        rep.count('second_application')
        o2 = it['mobs2']['model']['outs'][0]
        second = it['twice'][1]
        if in_hyps(o2['hyps'], it['consts']) and second.get('pos') != o2['spec']:
            rep.fail('failing-input', scn,
                     f"second application of the same constraint object after the path was "
                     f"rewritten left the file at {second.get('pos', second)}; the first "
                     f"in-window line of the new content starts at {o2['spec']}",
                     impl=it['twice'], spec=o2['spec'])
            return
        if second.get('pos') != o2['apply'].get('pos'):
            rep.fail('correspondence-broken', scn,
                     f"second application: impl={second} model={o2['apply']}",
                     impl=it['twice'], model=o2['apply'])
            return
    if ex['model_apply'].get('pos') != unit['pos']:
        rep.fail('correspondence-broken', scn,
                 f"apply_to_file: impl={unit} model={ex['model_apply']}",
                 impl=unit, model=ex['model_apply'])
        return
    if tmo is not None:
        item = {'scn': scn, 'impl': api, 'vals': ex['vals']}
        model = T.model_view(item, tmo)
        if 'err' in api or 'err' in model:
            if api.get('err') != model.get('err'):
                rep.fail('correspondence-broken', scn,
                         f"run(): impl={api.get('err', 'returned')} model={model.get('err', 'returned')}",
                         impl=api, model=model)
            return
        diff = T.compare_results(T.impl_results(item), model['results'])
        if not diff and api['stats']['lines'] != model['lines']:
            diff = f"lines_searched impl={api['stats']['lines']} model={model['lines']}"
        if diff:
            rep.fail('correspondence-broken', scn, diff, impl=api, model=model)


def run(tier, seed, replay_case=None):
    rep = core.Report(PROP, tier, seed)
    core.lean_build()
    aud = core.audit(PROP)
    from vh import bridge
    bridge.check(rep, PROP)
    total = 1200 if tier == 'quick' else 15000
    items = []
    corpus = core.load_corpus(PROP) if replay_case is None else [replay_case]
    if corpus:
        items += eval_cases(None, 0, {'fixed': corpus})
    if replay_case is None:
        items += core.run_sharded(eval_cases, seed, total, {'tier': tier})
    drv = core.Driver()
    mobs = drv.run([it['seek_case'] for it in items])
    idx2 = [i for i, it in enumerate(items) if 'seek_case2' in it]
    for i, mo in zip(idx2, drv.run([items[i]['seek_case2'] for i in idx2])):
        items[i]['mobs2'] = mo
    # second pass (suffix runs on the real code, task cases) in parallel chunks
    chunks = [(items[i::core.NCPU], mobs[i::core.NCPU]) for i in range(core.NCPU)]
    extras_by_chunk = []
    import concurrent.futures
    import multiprocessing
    ctx = multiprocessing.get_context('fork')
    with concurrent.futures.ProcessPoolExecutor(max_workers=core.NCPU, mp_context=ctx) as ex:
        futs = [ex.submit(second_pass, a, b) for a, b in chunks]
        extras_by_chunk = [f.result() for f in futs]
    extras = [None] * len(items)
    for i, chunk in enumerate(extras_by_chunk):
        for k, e in enumerate(chunk):
            extras[i + k * core.NCPU] = e
    tcases = [(i, e['task_case']) for i, e in enumerate(extras) if 'task_case' in e]
    tmobs = dict(zip([i for i, _ in tcases], drv.run([c for _, c in tcases])))
    for i, (it, e) in enumerate(zip(items, extras)):
        judge(rep, it, e, tmobs.get(i))
    rep.assumptions = ["timestamp extraction on the 64-byte window is an oracle table",
                       "hypotheses of C04 (= Sk.C04_position_tight): dated lines non-decreasing, "
                       "undated runs < 500 lines, lines <= 1 MiB - 256, a line's timestamp lies "
                       "within the line (empty lines / EOF undated)"]
    return rep.finish(aud, RULE)
