"""
C03 — sequence search reports exactly the complete sections; none is ever lost.

Theorem side: lean/SkModel/Theorems/C03.lean (state machine = declarative
`Spec.sections`).  Correspondence: in-process runs on generated line-class
sequences; observed through find_sequence_by_tag and the per-path result list.
"""
from vh import core, gen, taskcheck as T

PROP = 'C03'
RULE = ("scenario = one file whose lines carry random subsets of the words S/B/E (all 8 "
        "classes incl. lines matching both start and end) x 1..3 sequence definitions "
        "(end absent / present / present and matching the empty string, body on/off, "
        "hints, captures) plus simple searches; non-trivial = some sequence reports a "
        "section and some start line opens a section that is not reported or some line "
        "is in no section; distinct by scenario hash")


def gen_scenario(rng, tier):
    n = gen.n_lines(rng, tier)
    lines = gen.gen_lines(rng, n, seqish=True, longs=0.03)
    content = gen.assemble(rng, lines)
    defs = [gen.gen_seq_def(rng) for _ in range(rng.choice([1, 1, 2, 3]))]
    for _ in range(rng.choice([0, 0, 1, 2])):
        defs.append(gen.gen_simple_def(rng))
    regs = [[i, 0] for i in range(len(defs))]
    if rng.random() < 0.1:
        regs.append([0, 0])
    rng.shuffle(regs)
    scn = {'files': [{'name': 'f0.txt', 'content': content.hex()}],
           'defs': defs, 'regs': regs}
    if rng.random() < 0.2:
        scn['decode_errors'] = rng.choice(['ignore', 'replace', 'backslashreplace'])
    return scn


def judge(rep, item, mobs):
    scn = item['scn']
    model = T.model_view(item, mobs)
    spec = T.spec_seq_view(item, mobs)
    n = item['case']['n']
    nsec = sum(len(v) for v in spec.values())
    covered = sum(len(sec) for v in spec.values() for sec in v)
    rep.note_case(scn, nsec > 0 and covered < n * max(1, len(spec)),
                  sample={'scenario': scn, 'impl_sections': item['impl'].get('sections')})
    impl = item['impl']
    rep.count('sections_spec', nsec)
    if 'err' in impl or 'err' in model:
        rep.count('err_cases')
        if impl.get('err') != model.get('err'):
            rep.fail('failing-input' if 'err' in impl else 'correspondence-broken',
                     scn, f"outcome: impl={impl.get('err', 'returned')} "
                          f"model={model.get('err', 'returned')}", impl=impl, model=model)
        return
    for tag, di in T.unique_tag_seq_defs(scn).items():
        want = sorted(([[tag + role, ln, vs] for role, ln, vs in sec]
                       for sec in spec.get(di, [])), key=repr)
        got = impl['sections'].get(tag, [])
        rep.count('spec_compared')
        if got != want:
            rep.fail('failing-input', scn,
                     f"sequence {tag!r}: reported sections {got[:4]} but the complete "
                     f"sections of the file are {want[:4]}", impl=got, spec=want)
            return
    diff = T.compare_results(T.impl_results(item), model['results'])
    if diff:
        rep.fail('correspondence-broken', scn, diff, impl=T.impl_results(item),
                 model=model['results'])


def run(tier, seed, replay_case=None):
    rep = core.Report(PROP, tier, seed)
    core.lean_build()
    aud = core.audit(PROP)
    total = 2000 if tier == 'quick' else 50000
    items = []
    corpus = core.load_corpus(PROP) if replay_case is None else [replay_case]
    if corpus:
        items += T.eval_scenarios(None, 0, {'gen': gen_scenario, 'fixed': corpus})
    if replay_case is None:
        items += core.run_sharded(T.eval_scenarios, seed, total,
                                  {'gen': gen_scenario, 'tier': tier})
    drv = core.Driver()
    mobs = drv.run([it['case'] for it in items])
    for it, mo in zip(items, mobs):
        judge(rep, it, mo)
    # small-scope model-vs-spec sanity inside Lean (guards the theorem statement)
    L = 5 if tier == 'quick' else 7
    exh = drv.run([{'kind': 'c03exh', 'L': L}])[0]
    rep.extra['model_vs_spec_exhaustive'] = {'max_len': L, 'cases': exh['total'],
                                             'disagreements': exh['bad']}
    if exh['bad']:
        raise core.Infra(f"Lean model and Lean spec of C03 disagree on {exh['bad']} "
                         "class sequences: the model/spec in /verif is inconsistent")
    rep.assumptions = ["CPython re / bytes.decode / binary-file line iteration behave "
                       "as the oracle tables record them", "uuid4 section ids are unique"]
    return rep.finish(aud, RULE)
