"""
C02 — parallel search equals per-file sequential search: no loss, dup or misfiling.

Theorem side: lean/SkModel/Theorems/C02.lean (inductive invariant of the hand-over
protocol SkModel.Collect for every schedule: collected ++ queued ++ not-yet-put = the
task's sequential result list, per path; at return nothing is left; no deadlock).
Correspondence: REAL multi-process runs compared per path with (i) the same file
searched alone in-process by the real code (what the property literally says), (ii) the
model's sequential result; the hand-over trace (put / collector get / thread stop /
purge) recorded through wrappers is replayed through the model's step relation by the
Lean driver.
"""
import os
import random
import shutil
import tempfile
import threading
import time

from vh import core, gen, scenario as S, taskcheck as T

PROP = 'C02'
RULE = ("scenario = 2..24 files (empty files mixed in, 0..>10^4 results per file in "
        "thorough) x 1..4 simple/sequence searches x max_parallel_tasks in {0,1,2,3,8,16}; "
        "random delays injected in put_result and in the collector; some runs with the "
        "queue / buffer thresholds patched down to 5 / 7 so the queue-full and flush paths "
        "are crossed; non-trivial = >= 2 files with results and >= 3 transit batches; distinct "
        "by scenario hash")


def gen_scenario(rng, tier, big=False):
    nfiles = rng.choice([2, 2, 3, 4, 6, 12, 24]) if not big else \
        (3 if tier == 'quick' else rng.choice([2, 3]))
    scn = gen.gen_run_scenario(rng, tier, nfiles=nfiles, constraint=0.0 if big else 0.15,
                               empty=0.0 if big else 0.15,
                               lines=((12000 if tier == 'quick' else rng.choice([3000, 12000]))
                                      if big else None))
    if big:
        # every line ends in a token that is unique in the whole run: each file stores far more
        # than one index block (1000) of distinct values while the other tasks do the same
        for fi, f in enumerate(scn['files']):
            ls = bytes.fromhex(f['content']).split(b'\n')
            f['content'] = b'\n'.join(ln + b' u%d_%d' % (fi, k) if ln else ln
                                      for k, ln in enumerate(ls)).hex()
        scn['defs'] = [{'type': 'simple', 'pats': [r'(\S*).* (\S+)$'], 'tag': 't1', 'store': True}]
        scn['regs'] = [[0, k] for k in range(nfiles)]
        scn['max_parallel_tasks'] = rng.choice([2, 3, 8])
    if not big and rng.random() < 0.3:
        # some of the files are gzip archives (rotated logs next to the live one): a worker
        # hands their results over like those of any other file
        for f in scn['files']:
            if f['content'] and rng.random() < 0.5:
                f['gzip'] = {'level': rng.choice([1, 6, 9]), 'mtime': 0}
    scn['_delays'] = rng.choice([0, 0, 1, 3])          # max ms
    scn['_dseed'] = rng.randrange(1 << 30)
    if not big and rng.random() < 0.25:
        scn['_pre_run'] = True
    if not big and rng.random() < (0.08 if tier == 'quick' else 0.2):
        # small files only: every queue-full event costs the worker a 1 s back-off
        scn['_patch'] = {'RESULTS_QUEUE_SIZE': 5, 'NUM_BUFFERED_RESULTS': 7}
        for f in scn['files']:
            data = bytes.fromhex(f['content'])
            f['content'] = b'\n'.join(data.split(b'\n')[:25]).hex()
    return scn


def gen_deepq_scenario(rng, tier):
    """ queue-full DURING a multi-batch flush: the buffer is flushed at 30..45 results in
    transit batches of 10 into a 2..4 slot queue with a slow collector, so put_nowait meets a
    full queue while the task still holds more buffered results than the batch it is sending;
    the 1 s/2 s/... back-off sleeps of put_result are scaled down 25x (task.time only) """
    nfiles = rng.choice([2, 3, 4])
    scn = gen.gen_run_scenario(rng, tier, nfiles=nfiles, constraint=0.0, empty=0.1,
                               lines=rng.choice([60, 90, 140]))
    if rng.random() < 0.7:
        scn['defs'] = [{'type': 'simple', 'pats': [r'(\S*)'], 'tag': 't1', 'store': True}] + \
            scn['defs'][:rng.choice([0, 1])]
        scn['regs'] = [[i, k] for i in range(len(scn['defs'])) for k in range(nfiles)]
    scn['max_parallel_tasks'] = rng.choice([2, 3, 4])
    scn['_delays'] = rng.choice([2, 4])
    scn['_dseed'] = rng.randrange(1 << 30)
    scn['_patch'] = {'RESULTS_QUEUE_SIZE': rng.choice([2, 3, 4]),
                     'NUM_BUFFERED_RESULTS': rng.choice([30, 45])}
    scn['_sleep_scale'] = 25
    return scn


def with_stop(events):
    """ the stop request is logged when the collector thread's event is set (whoever sets it);
    should the code have no such hook point any more, the request is placed right before the
    thread's exit - it cannot have come later, and the model still refuses it there unless
    every task had finished """
    if ['texit', 0, 0] in events and ['stop', 0, 0] not in events:
        i = events.index(['texit', 0, 0])
        return events[:i] + [['stop', 0, 0]] + events[i:]
    return events


def run_mp(scn):
    """ the real multi-process run, with the hand-over trace """
    core.import_searchkit()
    from searchkit import task as TK, search as SR
    tmpdir = tempfile.mkdtemp(prefix='vh-')
    logf = os.path.join(tmpdir, '_trace.log')
    fd = os.open(logf, os.O_WRONLY | os.O_CREAT | os.O_APPEND)
    main_pid = os.getpid()
    dmax = scn.get('_delays', 0) / 1000.0

    def log(*ev):
        os.write(fd, ('\t'.join(str(x) for x in ev) + '\n').encode())

    saved = {}

    def patch(obj, name, new):
        saved[(obj, name)] = getattr(obj, name)
        setattr(obj, name, new)

    orig_put, orig_exec = TK.SearchTask.put_result, TK.SearchTask.execute
    orig_add = SR.SearchResultsCollection.add
    orig_stop = SR.ThreadManager.stop
    orig_get, orig_purge = SR.FileSearcher._get_results, SR.FileSearcher._purge_results

    def put_result(self, results):
        if self.results_manager.results_collection is None:
            log('put', self.info['source_id'], len(results))
            if dmax:
                time.sleep(random.Random(scn['_dseed'] ^ os.getpid() ^ len(results)).random() * dmax)
        return orig_put(self, results)

    gcs = {'tasks': 0, 'collected': False}

    def execute(self):
        if scn.get('_gc_schedule') and os.getpid() != main_pid:
            import gc
            gc.disable()              # the collector does not happen to run earlier ...
            gcs['tasks'] += 1
            gcs['collected'] = False
        st = orig_exec(self)
        if os.getpid() != main_pid:
            log('finish', self.info['source_id'], st['results'])
        return st
    execute.__name__ = 'execute'
    execute.__qualname__ = 'SearchTask.execute'

    def add(self, results):
        if results:
            kind = 'pget' if threading.current_thread() is threading.main_thread() else 'tget'
            log(kind, results[0].source_id, len(results))
            if dmax:
                time.sleep(dmax / 2)
        return orig_add(self, results)

    stopped = {'logged': False}

    def log_stop():
        if not stopped['logged']:
            stopped['logged'] = True
            log('stop', 0, 0)

    def stop(self):
        if self.name == 'results' and self.running:
            log_stop()
        return orig_stop(self)

    def _get_results(event, results, results_queue):
        # the stop request = the moment the thread's event is set, by whatever method
        orig_set = event.set

        def set_():
            log_stop()
            return orig_set()
        try:
            event.set = set_
        except AttributeError:
            pass
        if event.is_set():
            log_stop()
        try:
            return orig_get(event, results, results_queue)
        finally:
            log('texit', 0, 0)

    def _purge_results(results, results_queue, expected):
        try:
            return orig_purge(results, results_queue, expected)
        finally:
            log('pexit', 0, 0)

    if scn.get('_gc_schedule'):
        # ... but runs once, between request and response of the first manager-proxy call
        # of every later task of a worker: a legal schedule of the cyclic collector
        from multiprocessing import managers
        orig_cm = managers.BaseProxy._callmethod

        def _callmethod(self, methodname, args=(), kwds={}):
            if os.getpid() == main_pid or gcs['tasks'] < 2 or gcs['collected']:
                return orig_cm(self, methodname, args, kwds)
            import gc
            try:
                conn = self._tls.connection
            except AttributeError:
                self._connect()
                conn = self._tls.connection
            conn.send((self._id, methodname, args, kwds))
            gcs['collected'] = True
            gc.collect()
            kind, result = conn.recv()
            if kind == '#RETURN':
                return result
            if kind == '#PROXY':
                return orig_cm(self, methodname, args, kwds)
            raise managers.convert_to_error(kind, result)
        patch(managers.BaseProxy, '_callmethod', _callmethod)
    patch(TK.SearchTask, 'put_result', put_result)
    patch(TK.SearchTask, 'execute', execute)
    patch(SR.SearchResultsCollection, 'add', add)
    patch(SR.ThreadManager, 'stop', stop)
    patch(SR.FileSearcher, '_get_results', staticmethod(_get_results))
    patch(SR.FileSearcher, '_purge_results', staticmethod(_purge_results))
    if scn.get('_sleep_scale'):
        class _Time:
            def __getattr__(self, name):
                return getattr(time, name)

            @staticmethod
            def sleep(secs):
                log('qfull', 0, 0)       # task.py sleeps only in put_result's queue-full path
                time.sleep(secs / scn['_sleep_scale'])
        patch(TK, 'time', _Time())
    for k, v in scn.get('_patch', {}).items():
        patch(TK, k, v)
        if hasattr(SR, k):
            patch(SR, k, v)
    try:
        built = S.Built(scn, tmpdir)
        if scn.get('_pre_run'):
            # the caller's definition objects were used before, by an in-process search of the
            # first file alone: the parallel run still equals each file searched alone
            fs0 = SR.FileSearcher(decode_errors=scn.get('decode_errors'))
            p0 = os.path.join(tmpdir, scn['files'][0]['name'])
            for r in scn['regs']:
                if r[1] == 0:
                    fs0.add(built.defs[r[0]], p0)
            if fs0.files:
                try:
                    with core.time_limit(core.SINGLE_LIMIT):
                        fs0.run()
                except Exception:  # pylint: disable=broad-except
                    pass
            os.ftruncate(fd, 0)        # the hand-over trace is that of the parallel run only
        fs = built.searcher()
        obs = S.run_searcher(built, fs, S.scenario_K(scn))
        os.close(fd)
        events = []
        with open(logf) as f:
            for line in f:
                k, a, b = line.rstrip('\n').split('\t')
                events.append([k, int(a), int(b)])
        obs['qfull'] = sum(1 for e in events if e[0] == 'qfull')
        obs['events'] = with_stop([e for e in events if e[0] != 'qfull'])
        obs['consts'] = {'FLUSH': TK.NUM_BUFFERED_RESULTS, 'MAXB': TK.QueueTransitBuffer.MAX}
        return obs
    finally:
        for (obj, name), old in saved.items():
            setattr(obj, name, old)
        shutil.rmtree(tmpdir, ignore_errors=True)


def gen_gc_scenario(rng, tier):
    """ small queue (so that put_nowait raises queue.Full) + several tasks per worker +
    the collector scheduled inside a proxy call of a later task """
    scn = gen_scenario(rng, tier)
    while len(scn['files']) < 6:
        scn = gen_scenario(rng, tier)
    scn['max_parallel_tasks'] = 2
    scn['_gc_schedule'] = True
    scn['_delays'] = 0
    scn['_patch'] = {'RESULTS_QUEUE_SIZE': 2, 'NUM_BUFFERED_RESULTS': 7}
    for f in scn['files']:
        data = bytes.fromhex(f['content'])
        f['content'] = b'\n'.join(data.split(b'\n')[:25]).hex()
    return scn


def run_alone(scn, fidx):
    """ the same file searched alone, in-process, with the searches registered on it """
    s2 = dict(scn)
    s2['files'] = [scn['files'][fidx]]
    keep = [r for r in scn['regs'] if r[1] == fidx]
    s2['regs'] = [[r[0], 0] + r[2:] for r in keep]
    s2.pop('max_parallel_tasks', None)
    return S.run_impl(s2)


def eval_cases(rng, count, extra):
    fixed = extra.get('fixed')
    todo = fixed if fixed is not None else [None] * count
    out = []
    for item in todo:
        if item is not None:
            scn = item
        elif extra.get('gc'):
            scn = gen_gc_scenario(rng, extra.get('tier', 'quick'))
        elif extra.get('deepq'):
            scn = gen_deepq_scenario(rng, extra.get('tier', 'quick'))
        else:
            scn = gen_scenario(rng, extra.get('tier', 'quick'), extra.get('big', False))
        mp = run_mp(scn)
        alone = {}
        order, _ = T.catalog_order(scn)
        for f in order:
            alone[scn['files'][f]['name']] = run_alone(scn, f)
        out.append({'scn': scn, 'mp': mp, 'alone': alone})
    return out


def judge(rep, item, mrun, cmo):
    scn, mp, alone = item['scn'], item['mp'], item['alone']
    nb = sum(1 for e in mp.get('events', []) if e[0] == 'put')
    with_res = sum(1 for v in mp.get('paths', {}).values() if v)
    rep.note_case(scn, with_res >= 2 and nb >= 3,
                  sample={'files': len(scn['files']), 'events_head': mp.get('events', [])[:12],
                          'stats': mp.get('stats')})
    rep.count('mp_runs')
    rep.count('batches', nb)
    rep.count('results', mp.get('len', 0))
    if '_patch' in scn:
        rep.count('patched_threshold_runs')
    if scn.get('_gc_schedule'):
        rep.count('gc_scheduled_runs')
    if mp.get('_watchdog_extensions'):
        # slower than the nominal per-case limit but alive: the watchdog let it finish
        rep.count('runs_beyond_nominal_limit_but_alive')
    if scn.get('_sleep_scale'):
        rep.count('deep_queue_runs')
        rep.count('deep_queue_full_events', mp.get('qfull', 0))
    # (i) the property, literally: per path identical to the file searched alone
    errs_alone = [v['err'] for v in alone.values() if 'err' in v]
    if 'err' in mp or errs_alone:
        if 'err' in mp and mp['err'] in errs_alone:
            return
        rep.fail('failing-input', scn,
                 f"multi-process run: {mp.get('err', 'returned')}"
                 f"{' [' + mp['_watchdog'] + ']' if mp.get('_watchdog') else ''}; files alone: "
                 f"{errs_alone or 'all returned'}", impl=mp.get('err'), spec=errs_alone)
        return
    for name, single in alone.items():
        a = mp['paths'].get(name, [])
        b = single['paths'].get(name, [])
        if a != b:
            d = T.compare_results(a, b) or 'order across tags differs'
            rep.fail('failing-input', scn,
                     f"path {name}: multi-process results differ from the file searched "
                     f"alone: {d}", impl=a[:40], spec=b[:40])
            return
    if mp.get('_shared_section_ids'):
        # "same section grouping": every file's sections are its own; an id shared by sections
        # of two files merges them in find_sequence_by_tag / find_sequence_sections
        rep.fail('failing-input', scn,
                 f"section id(s) {mp['_shared_section_ids']} are carried by results of MORE THAN "
                 "ONE file: the sequence lookups of the collection merge sections that the "
                 "files searched alone keep apart", impl=mp['_shared_section_ids'])
        return
    extra = set(mp['paths']) - set(alone)
    if extra:
        rep.fail('failing-input', scn, f"results filed under unknown paths {sorted(extra)}",
                 impl=sorted(extra))
        return
    # (ii) model
    if T.judge_run(rep, scn, mp, mrun):
        return
    # (iii) the hand-over trace is a run of the model
    m = cmo['model']
    if not m['valid']:
        rep.fail('correspondence-broken', scn,
                 f"hand-over trace event #{m['at']} {mp['events'][m['at']]}: {m['why']}",
                 impl=mp['events'][:m['at'] + 1], model=m)
        return
    if not m['returned']:
        rep.fail('correspondence-broken', scn, "trace ends before the model returns",
                 impl=mp['events'][-10:], model=m)
        return
    rep.traces_validated += 1


def run(tier, seed, replay_case=None):
    rep = core.Report(PROP, tier, seed)
    core.lean_build()
    aud = core.audit(PROP)
    # big = > 10^4 results per file with the REAL thresholds (buffer flush at 10 000)
    nruns, nbig = (40, 1) if tier == 'quick' else (600, 12)
    items = []
    corpus = core.load_corpus(PROP) if replay_case is None else [replay_case]
    if corpus:
        items += eval_cases(None, 0, {'fixed': corpus})
    if replay_case is None:
        items += core.run_sharded(eval_cases, seed, nruns, {'tier': tier},
                                  shards=min(core.NCPU, nruns), workers=8)
        if nbig:
            items += core.run_sharded(eval_cases, seed + 3, nbig, {'tier': tier, 'big': True},
                                      shards=min(4, nbig), workers=4)
        ngc = 3 if tier == 'quick' else 40
        items += core.run_sharded(eval_cases, seed + 4, ngc, {'tier': tier, 'gc': True},
                                  shards=min(8, ngc), workers=8)
        ndq = 6 if tier == 'quick' else 60
        items += core.run_sharded(eval_cases, seed + 5, ndq, {'tier': tier, 'deepq': True},
                                  shards=min(6, ndq), workers=6)
    drv = core.Driver()
    mruns = T.run_models([it['scn'] for it in items], drv)
    ccases = []
    for it, mr in zip(items, mruns):
        order, _ = T.catalog_order(it['scn'])
        lens = [len(mr.get('paths', {}).get(it['scn']['files'][f]['name'], [])) for f in order]
        c = it['mp'].get('consts', {'FLUSH': 1, 'MAXB': 1})
        ccases.append({'kind': 'collect', 'lens': lens, 'FLUSH': c['FLUSH'], 'MAXB': c['MAXB'],
                       'events': it['mp'].get('events', [])})
    cmos = drv.run(ccases)
    for it, mr, cm in zip(items, mruns, cmos):
        judge(rep, it, mr, cm)
    rep.assumptions = ["the manager queue is FIFO per producer and a put that returned is "
                       "visible to the consumer", "OS scheduling is sampled, not enumerated; "
                       "the model covers every schedule",
                       "how long a run takes is not judged: a run counts as hung only when, "
                       "past the nominal per-case limit, it shows no sign of life (no batch "
                       "collected, < 5 % of a core used by the process tree) for a quarter of "
                       "the limit, or reaches the CPU / wall-clock backstops of core.time_limit"]
    return rep.finish(aud, RULE)
