"""
C05 — values read back from results equal what was captured (de-dup store lossless).

Theorem side: lean/SkModel/Theorems/C05.lean (`C05_roundtrip`: reading an exported
result through any later state of the store gives the captured values), on top of C15
(store invariant) and C06 (parallel store).  Correspondence: whole runs, in-process and
multi-process, on files built to stress the store: heavy duplication, all-distinct
values, more distinct values than the 1000-index block size, values textually equal to
tags and to sequence ids, named/typed/unnamed fields, unmatched optional groups; every
result is read back by index, by name, by attribute and by iteration.
"""
from vh import core, gen, scenario as S, taskcheck as T

PROP = 'C05'
RULE = ("scenario = 1 file (in-process, plain store) or 2..3 files (worker processes, "
        "block pre-allocating shared store) whose lines are drawn from one of: tiny alphabet "
        "(heavy duplication), all-distinct words, > block-size (1000) distinct words, words "
        "equal to the tags in use or to the uuid of a sequence definition; searches with "
        "1..3 groups incl. optional groups, named fields (list and typed dict forms), "
        "sequence searches; non-trivial = some value occurs in >= 2 results and some result "
        "has an unmatched optional group or a named field; distinct by scenario hash")

PATS = [r'(\w+) (\w+)', r'(\w+)(?: (\w+))?(?: (\w+))?', r'(\S+)', r'(\w+) (\d+)?',
        r'(\S+) (\S+) (\S+)', r'\S+', r'(?P<first>\w+)\s*(?P<rest>.*)',
        # every group optional: results whose groups are ALL unmatched still carry tag and
        # sequence id
        r'[a-z]\w*(?: (\d))?(?: (zz\w+))?', r'\w+(?: (\d+))?$']


def gen_words(rng, style, n, fidx=0):
    if style == 'dup':
        pool = ['a', 'b', 'c']
    elif style == 'distinct':
        pool = None
    elif style == 'tags':
        pool = ['t1', 't2', 'q1', 'q1-start', 'q1-body', '@@ID0@@', '@@ID1@@', 'x']
    else:
        pool = ['w%d' % i for i in range(40)]
    lines = []
    for k in range(n):
        cnt = rng.choice([1, 2, 2, 3])
        if pool is None:
            # distinct per line AND per file: two files never store the same value, so a store
            # index shared by two workers cannot go unnoticed
            ws = ['d%d_%d_%d' % (fidx, k, j) for j in range(cnt)]
        else:
            ws = [rng.choice(pool) for _ in range(cnt)]
        if rng.random() < 0.2:
            ws.append(str(rng.randrange(5)))
        lines.append(' '.join(ws).encode())
    return lines


def gen_scenario(rng, tier, multi):
    nfiles = rng.choice([2, 3]) if multi else 1
    files = []
    for k in range(nfiles):
        style = rng.choice(['dup', 'distinct', 'tags', 'mid'])
        if multi and rng.random() < 0.5:
            n = rng.choice([600, 1100, 2100])         # crosses the 1000-index block size
            style = rng.choice(['distinct', 'mid'])
        else:
            n = rng.choice([0, 3, 10, 40, 120])
        files.append({'name': f'f{k}.txt',
                      'content': gen.assemble(rng, gen_words(rng, style, n, k)).hex()})
    defs = []
    for _ in range(rng.choice([1, 2, 3])):
        if rng.random() < 0.25:
            d = {'type': 'seq', 'tag': rng.choice(['q1', 't1']),
                 'start': {'pats': [rng.choice([r'a\b', r'(w1\d|t1|a)\b', r'(\w+) x',
                                                r'(?:w1\d|t1|a)\b(?: (\d))?'])],
                           'store': True},
                 'body': {'pats': [rng.choice(PATS)], 'store': True},
                 'end': ({'pats': [rng.choice([r'b\b', r'(w2\d|t2|c)\b',
                                               r'(?:w2\d|t2|c|b)\b(?: (\d))?'])],
                          'store': True}
                         if rng.random() < 0.6 else None)}
        else:
            import re
            pat = rng.choice(PATS)
            d = {'type': 'simple', 'pats': [pat], 'tag': rng.choice(['t1', 't2', 'q1', None]),
                 'store': True}
            g = re.compile(pat).groups
            if rng.random() < 0.2:
                # a LIST of patterns with different numbers of groups: the first that matches a
                # line decides what is captured
                d['pats'] = [rng.choice([r'(\d+)$', r'zz(\w+)', r'(t\d) (\S+) (\S+)', r'[a-c]$']),
                             pat] + ([rng.choice(PATS)] if rng.random() < 0.4 else [])
                g = 0
            if g and rng.random() < 0.6:
                names = rng.sample(gen.FIELD_NAMES, g)
                as_dict = rng.random() < 0.6
                d['fields'] = [[nm, rng.choice([None, 'str']) if as_dict else None]
                               for nm in names]
                d['fields_dict'] = as_dict
                if pat == r'(\w+) (\d+)?' and as_dict:
                    d['fields'][1][1] = 'int'
        defs.append(d)
    if not any(d['type'] == 'seq' for d in defs):
        # make @@ID0@@ / @@ID1@@ meaningful anyway (ids of whatever definitions exist)
        pass
    regs = [[i, k] for i in range(len(defs)) for k in range(nfiles)]
    scn = {'files': files, 'defs': defs, 'regs': regs}
    if multi:
        scn['max_parallel_tasks'] = rng.choice([2, 3, 8])
    return scn


def eval_cases(rng, count, extra):
    fixed = extra.get('fixed')
    todo = fixed if fixed is not None else [None] * count
    out = []
    for item in todo:
        scn = item if item is not None else gen_scenario(rng, extra.get('tier', 'quick'),
                                                         extra.get('multi', False))
        out.append({'scn': scn, 'impl': S.run_impl(scn)})
    return out


def nontrivial(impl):
    if 'err' in impl:
        return False
    seen, dup, special = set(), False, False
    for rs in impl['paths'].values():
        for r in rs:
            if r['byname'] or None in r['iter']:
                special = True
            for v in r['iter']:
                if v is not None:
                    if v in seen:
                        dup = True
                    seen.add(v)
    return dup and special


def run(tier, seed, replay_case=None):
    rep = core.Report(PROP, tier, seed)
    core.lean_build()
    aud = core.audit(PROP)
    n_single, n_multi = (600, 15) if tier == 'quick' else (8000, 200)
    items = []
    corpus = core.load_corpus(PROP) if replay_case is None else [replay_case]
    if corpus:
        items += eval_cases(None, 0, {'fixed': corpus})
    if replay_case is None:
        items += core.run_sharded(eval_cases, seed, n_single, {'tier': tier})
        items += core.run_sharded(eval_cases, seed + 1, n_multi, {'tier': tier, 'multi': True},
                                  shards=min(core.NCPU, n_multi))
    drv = core.Driver()
    scns = [S.with_ids(it['scn'], it['impl'].get('_def_ids')) if '_def_ids' in it['impl']
            else it['scn'] for it in items]
    mruns = T.run_models(scns, drv)
    for it, scn_b, mr in zip(items, scns, mruns):
        rep.note_case(it['scn'], nontrivial(it['impl']),
                      sample={'scenario': {k: v for k, v in it['scn'].items() if k != 'files'},
                              'file_sizes': [len(f['content']) // 2 for f in it['scn']['files']]})
        rep.count('multi_process' if len(it['scn']['files']) > 1 else 'in_process')
        if 'err' not in it['impl']:
            vals = {v for rs in it['impl']['paths'].values() for r in rs for v in r['iter']}
            rep.count('max_distinct_values', 0)
            rep.counters['max_distinct_values'] = max(rep.counters['max_distinct_values'],
                                                      len(vals))
        T.judge_run(rep, scn_b, it['impl'], mr, check_stats=False)
    rep.assumptions = ["Python ==/hash on str/int values; cast functions (int, str) are "
                       "oracles", "manager proxies / queue pickling preserve values"]
    return rep.finish(aud, RULE)
