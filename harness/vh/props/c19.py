"""
C19 — MPCache is a per-key register shared safely by concurrent processes.

Theorem side: lean/SkModel/Theorems/C19.lean (every interleaving of the lock-protected
step system is a legal sequential history of atomic registers in critical-section
order; no deadlock).  Correspondence: 1..8 REAL processes on a temporary global path
issue random set/bulk_set/get/unset sequences over <= 3 keys; every operation logs its
invocation, lock acquisition, lock release and response with CLOCK_MONOTONIC.  The
critical-section order is replayed through the model's step relation by the Lean
driver (which also checks every value a get returned).  If that fails, the harness
searches for ANY linearisation of the invocation/response intervals; none => failing
history.
"""
import json
import multiprocessing
import os
import shutil
import tempfile
import time

from vh import core

PROP = 'C19'
RULE = ("history = 1..8 processes x 3..12 operations each (set / bulk_set of 1..3 keys / get "
        "/ unset) over 1..3 keys with random sub-millisecond pauses; non-trivial = >= 2 "
        "processes, some get returned a value written by another process and some get "
        "returned None after an unset or before any set; plus histories of 2..4 processes x "
        "25..45 operations in which get() meets an injected transient dbm error on its first "
        "open (retry path, back-off sleep scaled down) while other processes keep writing; plus "
        "histories whose processes are separately started interpreters (own hash salt); "
        "distinct by history hash")


def gen_case(rng, tier):
    nproc = rng.choice([1, 2, 2, 3, 4, 8])
    nkeys = rng.choice([1, 2, 3])
    progs = []
    pool = rng.random() < 0.5          # values repeat (A writes v, B writes w, A writes v again)
    r0 = rng.random()
    vals = ['v0', 'v1', 'v2'] if r0 < 0.5 else \
        rng.sample(['z:0', 'z:e', 'z:f', 'z:l'], 2) + ['v2'] if r0 < 0.75 else \
        list(rng.choice(EQUAL_TRIPLES))

    def pv():
        return vals[rng.randrange(3)]
    for p in range(nproc):
        ops = []
        for i in range(rng.randrange(3, 13 if nproc <= 4 else 7)):
            r = rng.random()
            k = rng.randrange(nkeys)
            if r < 0.3:
                ops.append(['set', k, pv() if pool else f'p{p}v{i}'])
            elif r < 0.45:
                ks = rng.sample(range(nkeys), rng.randrange(1, nkeys + 1))
                ops.append(['bulk', [[kk, pv() if pool else f'p{p}b{i}k{kk}']
                                     for kk in ks]])
            elif r < 0.85:
                ops.append(['get', k])
            else:
                ops.append(['unset', k])
        progs.append(ops)
    return {'progs': progs, 'pauses': rng.randrange(1 << 30),
            'ctx': rng.choice([0.0, 0.0, 0.5, 1.0]),
            # every other process works on a cache object that was pickled and unpickled
            'pickled': rng.random() < 0.3,
            'names': LONGKEYS if rng.random() < 0.15 else None}


def gen_inject_case(rng, tier):
    """ histories in which get() meets a transient dbm error on its first open and goes
    through its sleep-and-retry path while other processes keep writing the same key """
    nproc = rng.choice([2, 3, 4])
    nkeys = rng.choice([1, 1, 2])
    progs = []
    for p in range(nproc):
        writer = p % 2 == 1
        ops = []
        for i in range(rng.randrange(25, 45)):
            r = rng.random()
            k = rng.randrange(nkeys)
            if r < (0.75 if writer else 0.1):
                ops.append(['set', k, f'v{rng.randrange(3)}'])
            elif r < (0.85 if writer else 0.15):
                ops.append(['bulk', [[kk, f'v{rng.randrange(3)}'] for kk in range(nkeys)]])
            else:
                ops.append(['get', k])
        progs.append(ops)
    # every key is set before anything else happens, and never unset: no get may see None
    progs[0] = [['bulk', [[k, 'v0'] for k in range(nkeys)]]] + progs[0]
    return {'progs': progs, 'pauses': rng.randrange(1 << 30), 'inject': rng.choice([0.5, 0.9]),
            'head_start': True}


# key names on disk: one is a proper prefix of the others (the per-key files of different
# keys must stay apart whatever the names look like)
KEYS = ['k1', 'k10', 'k', 'k1x']
# known finding D14: a key named like the dbm.dumb file of another key
COLLIDING = ['k1', 'k1.dat', 'k1.dir']
# names near the file-name length limit that differ only in their last characters (and two
# of their prefixes): still one file set per key
_P = 'k' * 240
LONGKEYS = [_P + 'a' * 10, _P + 'b' * 10, _P, _P[:200]]


# value tokens 'z:...' stand for FALSY Python values (the register must hold them like any other)
FALSY = {'z:0': 0, 'z:e': '', 'z:f': False, 'z:l': [],
         # values that compare EQUAL to one another but are different values (type)
         'z:0f': 0.0, 'z:1': 1, 'z:t': True, 'z:1f': 1.0}
EQUAL_TRIPLES = [['z:0', 'z:f', 'z:0f'], ['z:1', 'z:t', 'z:1f']]


def real(tok):
    return FALSY.get(tok, tok)


def token(val):
    for t, v in FALSY.items():
        if type(val) is type(v) and val == v:
            return t
    return val


def kname(k, names=None):
    names = names or KEYS
    return names[k % len(names)]


def child(p, ops, gpath, logf, seed, inject=0.0, wait_for=None, ctx=0.0, head=False,
          names=None, pickled=False):
    import random
    core.import_searchkit()
    import fasteners
    from searchkit.utils import MPCache
    rng = random.Random(seed * 131 + p)
    fd = os.open(logf, os.O_WRONLY | os.O_APPEND)

    def log(*ev):
        os.write(fd, (json.dumps([time.monotonic_ns(), p] + list(ev)) + '\n').encode())

    arm = {'n': 0}
    cur = {}

    def mk_cache():
        """ an MPCache whose lock acquisitions / releases are logged """
        c = MPCache('cid', 'ctype', gpath)
        if pickled:
            # the object reached this process by pickling (Pool / executor arguments, a queue)
            import pickle
            c = pickle.loads(pickle.dumps(c))
        lk = c.cache_lock
        orig_acq, orig_rel = lk.acquire, lk.release

        def acquire(*a, **k):
            r = orig_acq(*a, **k)
            if r and cur.get('op'):
                log('acq')
            return r

        def release():
            if cur.get('op'):
                log('rel')
            return orig_rel()
        lk.acquire, lk.release = acquire, release
        return c

    cache = mk_cache()
    lock = cache.cache_lock
    if inject:
        # transient "database is locked by another process" errors: the first shelve.open of
        # a get() raises dbm.gnu.error (a stand-in class where the _gdbm extension is absent),
        # and the 10 s back-off sleep of the retry loop is scaled to milliseconds
        import dbm
        import shelve as real_shelve
        import types
        from searchkit import utils as U
        try:
            import dbm.gnu  # noqa, pylint: disable=unused-import
        except ImportError:
            shim = types.ModuleType('dbm.gnu')
            shim.error = type('error', (OSError,), {})
            dbm.gnu = shim          # attribute only: dbm.open() must not pick it up as a backend

        class ShelveProxy:
            def __getattr__(self, name):
                return getattr(real_shelve, name)

            @staticmethod
            def open(*a, **k):
                log('open', bool(lock.acquired))
                if arm['n'] > 0:
                    arm['n'] -= 1
                    log('injected')
                    raise dbm.gnu.error(11, 'Resource temporarily unavailable (injected)')
                return real_shelve.open(*a, **k)

        class TimeProxy:
            def __getattr__(self, name):
                return getattr(time, name)

            @staticmethod
            def sleep(secs):
                time.sleep(min(secs, 10) / 4000)
        U.shelve = ShelveProxy()
        U.time = TimeProxy()
    if wait_for:
        while not os.path.exists(wait_for):
            time.sleep(0.0005)
    for op in ops:
        if rng.random() < 0.5:
            time.sleep(rng.random() / 2000)
        if inject and op[0] == 'get' and rng.random() < inject:
            arm['n'] = 1 if rng.random() < 0.8 else 2
        log('inv', op)
        cur['op'] = True
        try:
            def do(c):
                if op[0] == 'set':
                    return c.set(kname(op[1], names), real(op[2]))
                if op[0] == 'bulk':
                    return c.bulk_set({kname(k, names): real(v) for k, v in op[1]})
                if op[0] == 'get':
                    return token(c.get(kname(op[1], names)))
                return c.unset(kname(op[1], names))
            if ctx and rng.random() < ctx:
                # the documented context-manager form: a cache object per operation
                with mk_cache() as c:
                    lock = c.cache_lock
                    ret = do(c)
                lock = cache.cache_lock
                cur['op'] = False
            else:
                ret = do(cache)
            cur['op'] = False
            log('resp', ret)
        except Exception as e:  # pylint: disable=broad-except
            cur['op'] = False
            log('exc', type(e).__name__)
        if wait_for is None and head and op is ops[0]:
            open(os.path.join(os.path.dirname(logf), 'go'), 'w').close()
    os.close(fd)
    core.cov_save()


def run_impl(case):
    tmp = tempfile.mkdtemp(prefix='vh-')
    logf = os.path.join(tmp, 'trace.log')
    open(logf, 'w').close()
    ctx = multiprocessing.get_context('fork')
    go = os.path.join(tmp, 'go') if case.get('head_start') else None
    if case.get('separate'):
        return run_separate(case, tmp, logf, go)
    procs = [ctx.Process(target=child, args=(p, ops, os.path.join(tmp, 'g'), logf,
                                             case['pauses'], case.get('inject', 0.0),
                                             go if p else None, case.get('ctx', 0.0),
                                             bool(case.get('head_start')), case.get('names'),
                                             bool(case.get('pickled')) and p % 2 == 1))
             for p, ops in enumerate(case['progs'])]
    try:
        for pr in procs:
            pr.start()
        deadline = time.time() + 60
        hung = False
        for pr in procs:
            pr.join(max(0.1, deadline - time.time()))
            if pr.is_alive():
                hung = True
        if hung:
            for pr in procs:
                if pr.is_alive():
                    pr.kill()
        evs = []
        with open(logf) as f:
            for line in f:
                evs.append(json.loads(line))
        evs.sort(key=lambda e: e[0])
        return {'events': evs, 'hung': hung,
                'exit': [pr.exitcode for pr in procs]}
    finally:
        shutil.rmtree(tmp, ignore_errors=True)


def run_separate(case, tmp, logf, go):
    """ the processes are separately started interpreters (as when several command-line tools
    share a cache), each with its own hash salt """
    import subprocess
    import sys
    here = os.path.dirname(os.path.dirname(os.path.dirname(os.path.abspath(__file__))))
    procs = []
    try:
        for p, ops in enumerate(case['progs']):
            args = [p, ops, os.path.join(tmp, 'g'), logf, case['pauses'], case.get('inject', 0.0),
                    go if p else None, case.get('ctx', 0.0), bool(case.get('head_start')),
                    case.get('names')]
            env = dict(os.environ, PYTHONPATH=here, PYTHONHASHSEED=str(1000 + p),
                       PYTHONDONTWRITEBYTECODE='1')
            procs.append(subprocess.Popen([sys.executable, '-m', 'vh.props.c19', json.dumps(args)],
                                          env=env, cwd=here, start_new_session=True,
                                          stdout=subprocess.DEVNULL, stderr=subprocess.DEVNULL))
        deadline = time.time() + 60
        hung = False
        for pr in procs:
            try:
                pr.wait(max(0.1, deadline - time.time()))
            except subprocess.TimeoutExpired:
                hung = True
        for pr in procs:
            if pr.poll() is None:
                pr.kill()
                pr.wait()
        evs = []
        with open(logf) as f:
            for line in f:
                evs.append(json.loads(line))
        evs.sort(key=lambda e: e[0])
        return {'events': evs, 'hung': hung, 'exit': [pr.returncode for pr in procs]}
    finally:
        shutil.rmtree(tmp, ignore_errors=True)


def gen_separate_case(rng, tier):
    """ one writer and 2..3 readers on one key, separately started interpreters """
    nread = rng.choice([2, 3])
    progs = [[['set', 0, f'v{i % 3}'] for i in range(40)]]
    for _ in range(nread):
        progs.append([['get', 0] if rng.random() < 0.85 else ['set', 0, 'v9']
                      for _ in range(30)])
    return {'progs': progs, 'pauses': rng.randrange(1 << 30), 'ctx': 0.0, 'head_start': True,
            'separate': True}


def _twopath_proc(role, ga, gb, q):
    core.import_searchkit()
    from searchkit.utils import MPCache
    a, b = MPCache('cid', 'ctype', ga), MPCache('cid', 'ctype', gb)
    try:
        if role == 'writer':
            a.set('k', 'a1')
            b.set('k', 'b1')
            b.bulk_set({'k2': 'b2'})
            a.unset('nothing')
            q.put('done')
        else:
            q.put({'B': [b.get('k'), b.get('k2')], 'A': [a.get('k'), a.get('k2')]})
    except Exception as e:  # pylint: disable=broad-except
        q.put({'err': type(e).__name__})
    core.cov_save()


def twopath_eval(_rng, _count, _extra):
    """ the same cache id and type under TWO global paths used by one process: two independent
    caches (another process reading either path sees exactly what was written under it) """
    tmp = tempfile.mkdtemp(prefix='vh-')
    ctx = multiprocessing.get_context('fork')
    out = {}
    try:
        ga, gb = os.path.join(tmp, 'A'), os.path.join(tmp, 'B')
        for role in ('writer', 'reader'):
            q = ctx.Queue()
            pr = ctx.Process(target=_twopath_proc, args=(role, ga, gb, q))
            pr.start()
            pr.join(60)
            if pr.is_alive():
                pr.kill()
                out[role] = 'hang'
            else:
                out[role] = q.get(timeout=5) if not q.empty() else 'no answer'
        return [out]
    finally:
        shutil.rmtree(tmp, ignore_errors=True)


def eval_cases(rng, count, extra):
    fixed = extra.get('fixed')
    todo = fixed if fixed is not None else [None] * count
    out = []
    for item in todo:
        if item is not None:
            case = item
        elif extra.get('inject'):
            case = gen_inject_case(rng, extra.get('tier', 'quick'))
        elif extra.get('separate'):
            case = gen_separate_case(rng, extra.get('tier', 'quick'))
        else:
            case = gen_case(rng, extra.get('tier', 'quick'))
        out.append({'case': case, 'impl': run_impl(case)})
    return out


def model_case(item):
    """ critical sections in lock order """
    evs = []
    pending = {}
    for _t, p, kind, *rest in item['impl']['events']:
        if kind == 'acq':
            evs.append(['acq', p])
        elif kind == 'injected':
            evs.append(['retry', p])        # a failed open inside get(): sleep, try again
        elif kind == 'rel':
            pending[p] = len(evs)
            evs.append(['rel', p, None])
        elif kind == 'resp' and p in pending:
            evs[pending.pop(p)][2] = rest[0]
    return {'kind': 'cache', 'progs': item['case']['progs'], 'events': evs}


def operations(impl):
    """ [(proc, op, inv time, resp time, returned)] """
    ops, cur = [], {}
    for t, p, kind, *rest in impl['events']:
        if kind == 'inv':
            cur[p] = (rest[0], t)
        elif kind == 'resp' and p in cur:
            op, t0 = cur.pop(p)
            ops.append((p, op, t0, t, rest[0]))
    return ops


class SearchBudget(Exception):
    pass


def linearizable(ops, budget=200000):
    """ Wing-Gong search for a legal sequential register history respecting real time """
    n = len(ops)
    order = sorted(range(n), key=lambda i: ops[i][2])
    seen = set()
    steps = [0]

    def apply(state, op, ret):
        st = dict(state)
        if op[0] == 'set':
            st[op[1]] = op[2]
        elif op[0] == 'bulk':
            for k, v in op[1]:
                st[k] = v
        elif op[0] == 'unset':
            st[op[1]] = None
        else:
            if st.get(op[1]) != ret:
                return None
        return st

    def rec(done, state):
        steps[0] += 1
        if steps[0] > budget:
            raise SearchBudget()
        if len(done) == n:
            return []
        key = (done, tuple(sorted(state.items())))
        if key in seen:
            return None
        seen.add(key)
        rem = [i for i in order if i not in done]
        first_resp = min(ops[i][3] for i in rem)
        for i in rem:
            if ops[i][2] > first_resp:
                break                   # invoked after another pending op responded
            st = apply(state, ops[i][1], ops[i][4])
            if st is None:
                continue
            r = rec(done | {i}, st)
            if r is not None:
                return [i] + r
        return None
    try:
        return rec(frozenset(), {})
    except (SearchBudget, RecursionError):
        return 'unknown'


def lost_value(ops):
    """ a get that returned None for a key that was set before the get started and is never
    unset in the whole history: no linearisation can explain it (cheap, no search) """
    if any(o[1][0] == 'unset' for o in ops):
        return None
    first_set = {}
    for p, op, _t0, t1, _ret in ops:
        keys = [op[1]] if op[0] == 'set' else [k for k, _v in op[1]] if op[0] == 'bulk' else []
        for k in keys:
            first_set[k] = min(first_set.get(k, t1), t1)
    for p, op, t0, _t1, ret in ops:
        if op[0] == 'get' and ret is None and first_set.get(op[1], t0 + 1) < t0:
            return (p, op)
    return None


def gen_hammer_case(rng, like):
    """ failing-input search after a correspondence break: one writer and seven readers on one
    key, every operation in the mode (context-manager form / injected errors) of the history
    whose trace no longer checked """
    progs = [[['set', 0, f'v{i % 3}'] for i in range(120)]]
    for _ in range(7):
        progs.append([['get', 0] for _ in range(80)])
    return {'progs': progs, 'pauses': rng.randrange(1 << 30), 'ctx': like.get('ctx', 0.0),
            'inject': like.get('inject', 0.0), 'head_start': True, 'hammer': True}


def judge(rep, item, mobs):
    case, impl = item['case'], item['impl']
    ops = operations(impl)
    gets = [o for o in ops if o[1][0] == 'get']
    writer = {}
    for p, op, *_ in ops:
        if op[0] == 'set':
            writer[op[2]] = p
        elif op[0] == 'bulk':
            for _k, v in op[1]:
                writer[v] = p
    foreign = any(o[4] is not None and writer.get(o[4]) != o[0] for o in gets)
    nones = any(o[4] is None for o in gets)
    rep.note_case(case, len(case['progs']) >= 2 and foreign and nones,
                  sample={'progs': case['progs'][:2], 'events_head': impl['events'][:10]})
    rep.count('operations', len(ops))
    rep.count('processes_%d' % len(case['progs']))
    total = sum(len(p) for p in case['progs'])
    excs = [e for e in impl['events'] if e[2] == 'exc']
    if impl['hung'] or excs or len(ops) != total or any(x != 0 for x in impl['exit']):
        rep.fail('failing-input', case,
                 f"{'a process blocked for ever; ' if impl['hung'] else ''}"
                 f"{('operation raised ' + excs[0][3] + '; ') if excs else ''}"
                 f"{len(ops)}/{total} operations completed", impl=impl['events'][-12:])
        return
    if case.get('separate'):
        rep.count('histories_of_separately_started_interpreters')
    if case.get('inject'):
        rep.count('histories_with_transient_errors')
        rep.count('transient_errors_injected',
                  sum(1 for e in impl['events'] if e[2] == 'injected'))
    m = mobs['model']
    unlocked = [e for e in impl['events'] if e[2] == 'open' and not e[3]]
    if m['valid'] and m['specReplayOk'] and m['logLen'] == total and not unlocked:
        rep.traces_validated += 1
        return
    # the lock-order witness failed: is there any linearisation at all?
    lost = lost_value(ops)
    lin = None if lost else linearizable(ops)
    if lost:
        rep.fail('failing-input', case,
                 f"process {lost[0]}: {lost[1]} returned None although the key had been set "
                 "before the get started and is never unset", impl=impl['events'][-30:], model=m)
    elif lin == 'unknown':
        rep.fail('correspondence-broken', case,
                 f"critical-section trace is not a run of the model: {m['why']}; the search "
                 "for a linearisation of the history ran out of budget", model=m)
    elif lin is not None and unlocked and m['valid'] and m['specReplayOk']:
        rep.fail('correspondence-broken', case,
                 f"process {unlocked[0][1]} opened the shelve without holding the cache lock "
                 "(the model's accesses are inside the critical section); the recorded history "
                 "is still linearisable", impl=impl['events'][:40], model=m)
    elif lin is None:
        rep.fail('failing-input', case,
                 "no linearisation of the recorded history exists (a get returned a torn, "
                 f"stale or foreign value); lock-order replay: {m['why']}",
                 impl=[(o[0], o[1], o[4]) for o in ops], model=m)
    else:
        rep.fail('correspondence-broken', case,
                 f"critical-section trace is not a run of the model: {m['why']} (the history "
                 "itself is linearisable)", impl=impl['events'][:40], model=m)


def run(tier, seed, replay_case=None):
    rep = core.Report(PROP, tier, seed)
    core.lean_build()
    aud = core.audit(PROP)
    total = 60 if tier == 'quick' else 1500
    items = []
    two = replay_case is not None and replay_case.get('twopath')
    corpus = core.load_corpus(PROP) if replay_case is None else ([] if two else [replay_case])
    if corpus:
        items += eval_cases(None, 0, {'fixed': corpus})
    if two:
        for o in core.run_sharded(twopath_eval, seed, 1, shards=1, workers=2):
            want = {'B': ['b1', 'b2'], 'A': ['a1', None]}
            if o.get('writer') != 'done' or o.get('reader') != want:
                rep.fail('failing-input', {'twopath': True}, f"two global paths: read {o}; "
                         f"expected {want}", impl=o, spec=want)
    if replay_case is None:
        items += core.run_sharded(eval_cases, seed, total, {'tier': tier},
                                  shards=min(core.NCPU, total), workers=6)
        ninj = 12 if tier == 'quick' else 200
        items += core.run_sharded(eval_cases, seed + 1, ninj, {'tier': tier, 'inject': True},
                                  shards=min(core.NCPU, ninj), workers=6)
        nsep = 4 if tier == 'quick' else 60
        items += core.run_sharded(eval_cases, seed + 2, nsep, {'tier': tier, 'separate': True},
                                  shards=min(4, nsep), workers=4)
        for o in core.run_sharded(twopath_eval, seed, 1, shards=1, workers=2):
            rep.evaluations += 1
            rep.count('two_global_paths_histories')
            want = {'B': ['b1', 'b2'], 'A': ['a1', None]}
            if o.get('writer') != 'done' or o.get('reader') != want:
                rep.fail('failing-input', {'twopath': True},
                         "one process wrote k='a1' under global path A and k='b1', k2='b2' under "
                         f"global path B (same cache id and type); another process then read {o}; "
                         f"expected {want}", impl=o, spec=want)
        # known finding D14: keys named like another key's dbm file (one history per run)
        items += eval_cases(None, 0, {'fixed': [{
            'progs': [[['set', 0, 'v0'], ['get', 1], ['get', 0], ['set', 2, 'v1'], ['get', 0]]],
            'pauses': 1, 'ctx': 0.0, 'names': COLLIDING}]})
    drv = core.Driver()
    mobs = drv.run([model_case(it) for it in items])
    for it, mo in zip(items, mobs):
        judge(rep, it, mo)
    others = [f for f in rep.failures if f['case'].get('names') != COLLIDING
              and not f['case'].get('twopath')]
    if replay_case is None and others and \
            not any(f['kind'] == 'failing-input' for f in others):
        # correspondence broke but no history contradicts the property yet: search for one
        import random
        like = others[0]['case']
        hrng = random.Random(seed + 77)
        hitems = eval_cases(None, 0, {'fixed': [gen_hammer_case(hrng, like) for _ in range(8)]})
        rep.count('hammer_histories', len(hitems))
        for it, mo in zip(hitems, drv.run([model_case(it) for it in hitems])):
            judge(rep, it, mo)
    rep.assumptions = ["fasteners.InterProcessLock (fcntl) provides mutual exclusion between "
                       "processes", "shelve/dbm writes of one record are durable and visible to "
                       "the next opener", "CLOCK_MONOTONIC is consistent across processes"]
    return rep.finish(aud, RULE, signature_fn=lambda f: 'key-named-like-a-dbm-file'
                      if isinstance(f.get('case'), dict) and f['case'].get('names') == COLLIDING
                      else None)


if __name__ == '__main__':
    import sys
    child(*json.loads(sys.argv[1]))
