"""
A *scenario* is a JSON-serialisable description of files, search definitions,
constraints and registrations.  This module
  * runs it on the REAL searchkit (imported from /repo) and returns a canonical
    observation made through the public API only (`run_impl`),
  * turns it into a case for the Lean model, with every external behaviour (regex
    match, UTF-8 decode, timestamp extraction, type cast) supplied as a table that
    the harness computes with Python's own re/codecs/datetime, independently of
    searchkit's call sites (`task_case`),
  * canonicalises both observations for comparison.
"""
import gzip
import io
import contextlib
import os
import re
import shutil
import tempfile
from datetime import datetime, timedelta

from vh import core
from vh.core import import_searchkit

GZIP_MAGIC = b'\x1f\x8b'


# --------------------------------------------------------------------------
# helpers shared by impl and oracle
# --------------------------------------------------------------------------

def file_bytes(f):
    data = bytes.fromhex(f['content'])
    ids = f.get('_ids')
    if ids:
        for k, i in enumerate(ids):
            data = data.replace(b'@@ID%d@@' % k, i.encode())
    return data


def with_ids(scn, ids):
    """ the scenario with every @@ID<k>@@ placeholder bound to the id of definition k """
    s2 = dict(scn)
    s2['files'] = [dict(f, _ids=ids) for f in scn['files']]
    return s2


def file_disk_bytes(f):
    """ what is written to disk: the content, gzip-encoded if asked """
    data = file_bytes(f)
    gz = f.get('gzip')
    if not gz:
        return data
    members = max(1, gz.get('members', 1))
    if members == 1 or len(data) < members:
        pieces = [data]
    else:
        cuts = sorted(set(gz.get('cuts') or
                          [len(data) * i // members for i in range(1, members)]))
        pieces, last = [], 0
        for c in cuts + [len(data)]:
            pieces.append(data[last:c])
            last = c
    out = b''
    for piece in pieces:
        buf = io.BytesIO()
        with gzip.GzipFile(fileobj=buf, mode='wb', compresslevel=gz.get('level', 6),
                           mtime=gz.get('mtime', 0)) as g:
            g.write(piece)
        out += buf.getvalue()
    return out


def split_lines(data):
    """ binary-mode line iteration: split after every LF, LF only """
    if not data:
        return []
    parts = data.split(b'\n')
    lines = [p + b'\n' for p in parts[:-1]]
    if parts[-1]:
        lines.append(parts[-1])
    return lines


def cast_py(typ, v):
    if v is None or typ is None:
        return v
    if typ == 'int':
        return int(v)
    if typ == 'str':
        return str(v)
    raise ValueError(typ)


def sd_group_count(sd):
    return max([re.compile(p).groups for p in sd['pats']] + [0])


def scenario_K(scn):
    k = 0
    for d in scn['defs']:
        if d['type'] == 'simple':
            k = max(k, sd_group_count(d))
        else:
            for part in ('start', 'body', 'end'):
                if d.get(part):
                    k = max(k, sd_group_count(d[part]))
    return k + 1


def since_date(c):
    cur = datetime.strptime(c['current'], '%Y-%m-%d %H:%M:%S')
    days = c.get('days', 0)
    hours = 0 if days else c.get('hours', 24)
    return cur - timedelta(days=days, hours=hours or 0)


# --------------------------------------------------------------------------
# the real thing
# --------------------------------------------------------------------------

class Built:
    """ searchkit objects built for a scenario (kept so histories can reuse them) """
    def __init__(self, scn, tmpdir):
        import_searchkit()
        from searchkit import (SearchDef, SequenceSearchDef,  # noqa
                               ResultFieldInfo)
        from searchkit.constraints import SearchConstraintSearchSince
        from vh import matchers
        self.scn = scn
        self.tmpdir = tmpdir
        self.paths = []
        self.constraints = []
        for c in scn.get('constraints', []):
            kw = {}
            if 'days' in c:
                kw['days'] = c['days']
            if 'hours' in c:
                kw['hours'] = c['hours']
            self.constraints.append(SearchConstraintSearchSince(
                current_date=c['current'],
                ts_matcher_cls=matchers.MATCHERS[c.get('matcher', 'std')], **kw))

        def field_info(sd):
            fs = sd.get('fields')
            if not fs:
                return None
            if sd.get('fields_dict', True):
                conv = {'int': int, 'str': str, None: None}
                return ResultFieldInfo({n: conv[t] for n, t in fs})
            return ResultFieldInfo([n for n, _ in fs])

        def mk_sd(sd, tag=None, cons=None):
            pats = sd['pats']
            pattern = pats if (len(pats) != 1 or sd.get('as_list')) else pats[0]
            kw = {}
            if cons:
                kw['constraints'] = [self.constraints[i] for i in cons]
            return SearchDef(pattern, tag=tag, hint=sd.get('hint'),
                             store_result_contents=sd.get('store', True),
                             field_info=field_info(sd), **kw)

        self.defs = []
        for d in scn['defs']:
            if d['type'] == 'simple':
                self.defs.append(mk_sd(d, tag=d.get('tag'), cons=d.get('cons')))
            else:
                kw = {}
                if d.get('cons'):
                    kw['constraints'] = [self.constraints[i] for i in d['cons']]
                self.defs.append(SequenceSearchDef(
                    start=mk_sd(d['start']), tag=d['tag'],
                    body=mk_sd(d['body']) if d.get('body') else None,
                    end=mk_sd(d['end']) if d.get('end') else None, **kw))
        self.def_index = {d.id: i for i, d in enumerate(self.defs)}
        self.def_ids = [d.id for d in self.defs]
        for f in with_ids(scn, self.def_ids)['files']:
            self.write_file(f)

    def write_file(self, f):
        path = os.path.join(self.tmpdir, f['name'])
        os.makedirs(os.path.dirname(path), exist_ok=True)
        data = file_disk_bytes(f)
        with open(path, 'wb') as fh:
            fh.write(data)
        if (len(data) + sum(data[:16])) % 3 == 0:
            # metadata is not content: some files carry a modification time in the year 2000
            os.utime(path, (946684800, 946684800))
        if path not in self.paths:
            self.paths.append(path)
        return path

    def searcher(self):
        from searchkit import FileSearcher
        scn = self.scn
        kw = {}
        if scn.get('global') is not None:
            kw['constraint'] = self.constraints[scn['global']]
        if 'max_parallel_tasks' in scn:
            kw['max_parallel_tasks'] = scn['max_parallel_tasks']
        if 'max_logrotate_depth' in scn:
            kw['max_logrotate_depth'] = scn['max_logrotate_depth']
        fs = FileSearcher(decode_errors=scn.get('decode_errors'), **kw)
        for reg in scn['regs']:
            di, target = reg[0], reg[1]
            agc = reg[2] if len(reg) > 2 else True
            # '_spell': the user writes the path non-canonically (dir//name, dir/./name)
            name = scn['files'][target]['name'] if isinstance(target, int) else target
            path = self.tmpdir + scn.get('_spell', '/') + name
            fs.add(self.defs[di], path, allow_global_constraints=agc)
        return fs


def canon_val(v):
    if v is None:
        return None
    if isinstance(v, bool):
        return 'b:' + str(v)
    if isinstance(v, int):
        return 'i:' + str(v)
    if isinstance(v, str):
        return 's:' + v
    return 'o:' + repr(v)


def _safe(fn):
    """ an accessor that raises is an observation, not a harness failure """
    try:
        return fn()
    except Exception as e:  # pylint: disable=broad-except
        return '!raised:' + type(e).__name__


def observe_result(r, K, def_index, secmap):
    """ canonical observation of one result through its public accessors """
    sec = r.section_id
    if sec is not None:
        if sec not in secmap:
            secmap[sec] = len(secmap)
        sec = secmap[sec]
    seq = _safe(lambda: r.sequence_id)
    byname = {}
    for nm in (r.field_names or []):
        try:
            a = canon_val(getattr(r, nm))
        except AttributeError:
            a = '!noattr'
        except Exception as e:  # pylint: disable=broad-except
            a = '!raised:' + type(e).__name__
        byname[nm] = [_safe(lambda nm=nm: canon_val(r.get(nm))), a]
    return {'ln': r.linenumber, 'tag': _safe(lambda: r.tag),
            'seq': def_index.get(seq, '?') if seq is not None else None,
            'sec': sec,
            'iter': _safe(lambda: [canon_val(v) for v in r]),
            'byidx': [_safe(lambda i=i: canon_val(r.get(i))) for i in range(K + 1)],
            'byname': byname}


def observe_collection(built, results, K):
    out = {}
    for path in results.files:
        secmap = {}
        rel = os.path.relpath(path, built.tmpdir)
        out[rel] = [observe_result(r, K, built.def_index, secmap)
                    for r in results.find_by_path(path)]
    return out


def classify_exc(e):
    import_searchkit()
    from searchkit.exception import FileSearchException
    if isinstance(e, UnicodeDecodeError):
        return 'unicodeDecode'
    if isinstance(e, FileSearchException):
        return 'fileSearch'
    return 'other:' + type(e).__name__


@contextlib.contextmanager
def counting_adds():
    """ progress token for the watchdog: how many times the collection has been handed results
    (by the collector thread, the final purge or an in-process task) - a run whose worker
    processes are slow but whose results keep arriving is alive, however little CPU it gets """
    n = [0]
    try:
        from searchkit import search as SR
        cls = SR.SearchResultsCollection
        orig = cls.add
    except (ImportError, AttributeError):
        yield lambda: None
        return

    def add(self, *a, **k):
        n[0] += 1
        return orig(self, *a, **k)
    cls.add = add
    try:
        yield lambda: n[0]
    finally:
        cls.add = orig


def run_searcher(built, fs, K):
    from vh import core
    limit = core.MULTI_LIMIT if len(fs.files) > 1 else core.SINGLE_LIMIT
    try:
        with counting_adds() as adds, core.time_limit(limit, progress=adds):
            results = fs.run()
    except core.CaseTimeout:
        core.kill_children()
        return {'err': f'hang(>{limit}s)', '_watchdog': core.WATCHDOG['last_verdict']}
    except Exception as e:  # pylint: disable=broad-except
        return {'err': classify_exc(e)}
    ext = core.WATCHDOG['last_extensions']
    try:
        obs = _observe_run(built, fs, results, K)
    except Exception as e:  # pylint: disable=broad-except
        return {'err': 'accessor-raised:' + type(e).__name__}
    if ext:
        obs['_watchdog_extensions'] = ext
    return obs


def _observe_run(built, fs, results, K):
    st = fs.stats
    sections = {}
    for d in built.scn['defs']:
        if d['type'] == 'seq' and d['tag'] not in sections:
            try:
                found = results.find_sequence_by_tag(d['tag'])
            except KeyError:
                found = {}      # tag never registered on this searcher
            sections[d['tag']] = sorted(
                ([[r.tag, r.linenumber, [canon_val(v) for v in r]] for r in sec]
                 for sec in found.values()), key=repr)
    owners = {}
    for path in results.files:
        for r in results.find_by_path(path):
            if r.section_id is not None:
                owners.setdefault(r.section_id, set()).add(path)
    return {'paths': observe_collection(built, results, K),
            '_def_ids': built.def_ids,
            # section ids that occur under more than one path (sections of different files
            # would merge in the collection's sequence lookups)
            '_shared_section_ids': sorted(str(k) for k, v in owners.items() if len(v) > 1)[:3],
            'sections': sections,
            'stats': {'lines': st['lines_searched'], 'results': st['results'],
                      'searches': st['searches'],
                      'searches_by_job': list(st['searches_by_job']),
                      'jobs_completed': st['jobs_completed'],
                      'total_jobs': st['total_jobs']},
            'len': len(results)}


def pub(obs):
    """ the observation without harness bookkeeping (keys starting with '_') """
    return {k: v for k, v in obs.items() if not k.startswith('_')}


def run_impl(scn):
    """ one fresh set of objects, one run() """
    tmpdir = tempfile.mkdtemp(prefix='vh-')
    # one run in eight has the application's debug logging switched on (records really
    # formatted); decided from the scenario itself so that a replay does the same
    dbg = int(core.digest(pub(scn)), 16) % 8 == 0
    # one run in five with the task's flush threshold (NUM_BUFFERED_RESULTS, 10000 in the code)
    # set to a handful, so that the mid-task hand-over paths - a flush in the middle of the
    # line loop and in the middle of the end-of-file sequence processing - are crossed by
    # ordinary small files; only the constant is set, and restored
    flush = scn.get('_flush')
    if flush is None and int(core.digest(pub(scn)), 16) % 5 == 1:
        flush = [3, 7, 10, 25][int(core.digest(pub(scn)), 16) // 5 % 4]
    import_searchkit()
    from searchkit import task as _TK
    # (a tree in which the constant has another name simply keeps its own threshold)
    old_flush = getattr(_TK, 'NUM_BUFFERED_RESULTS', None)
    if not isinstance(old_flush, int):
        flush = None
    try:
        if flush:
            _TK.NUM_BUFFERED_RESULTS = flush
        with core.debug_logging(dbg):
            built = Built(scn, tmpdir)
            fs = built.searcher()
            return run_searcher(built, fs, scenario_K(scn))
    finally:
        if flush:
            _TK.NUM_BUFFERED_RESULTS = old_flush
        shutil.rmtree(tmpdir, ignore_errors=True)


# --------------------------------------------------------------------------
# oracle tables -> Lean case
# --------------------------------------------------------------------------

class Interner:
    """ opaque tokens for captured values (the model only compares them) """
    def __init__(self):
        self.tok = {}
        self.val = []

    def __call__(self, v):
        if v is None:
            return None
        key = canon_val(v)
        if key not in self.tok:
            self.tok[key] = f"v{len(self.val)}"
            self.val.append(key)
        return self.tok[key]

    def back(self, t):
        if t is None:
            return None
        if isinstance(t, str) and t.startswith('v') and t[1:].isdigit():
            return self.val[int(t[1:])]
        return t


def _match_json(sd, m, intern):
    if m is None:
        return None
    fields = sd.get('fields') or None
    groups = []
    for k, g in enumerate(m.groups()):
        typ = None
        if fields and k < len(fields) and sd.get('fields_dict', True):
            typ = fields[k][1]
        groups.append(intern(cast_py(typ, g)))
    return {'g0': intern(m.group(0)), 'g': groups}


def _sd_tables(sd, texts, intern, tag=None):
    hint = re.compile(sd['hint']) if sd.get('hint') else None
    pats = [re.compile(p) for p in sd['pats']]
    fields = sd.get('fields') or None

    def run_empty():
        if hint and not hint.search(''):
            return None
        for p in pats:
            m = p.match('')
            if m:
                return _match_json(sd, m, intern)
        return None

    return {
        'hint': ([bool(hint.search(t)) if t is not None else False for t in texts]
                 if hint else None),
        'pats': [[_match_json(sd, p.match(t), intern) if t is not None else None
                  for t in texts] for p in pats],
        'empty': run_empty(),
        'store': sd.get('store', True),
        'tag': tag,
        'fields': [n for n, _ in fields] if fields else None,
    }


def decode_lines(raw_lines, policy):
    texts, dec = [], []
    for ln in raw_lines:
        try:
            texts.append(ln.decode('utf-8', **({'errors': policy} if policy else {})))
            dec.append(True)
        except UnicodeDecodeError:
            texts.append(None)
            dec.append(False)
    return texts, dec


def cons_tables(scn, cons, texts):
    from vh import matchers
    out = []
    for ci in cons or []:
        c = scn['constraints'][ci]
        since = since_date(c)
        col = []
        for t in texts:
            if t is None:
                col.append('u')
                continue
            ts = matchers.oracle_ts(c.get('matcher', 'std'), t)
            col.append('u' if ts is None else ('p' if ts >= since else 'f'))
        out.append(col)
    return out


def task_case(scn, fidx, start=0, intern=None):
    """
    The Lean `task` case for file `fidx` of the scenario, searched from byte
    `start` of its (uncompressed) content.  Returns (case, interner).
    """
    intern = intern or Interner()
    data = file_bytes(scn['files'][fidx])[start:]
    raw = split_lines(data)
    texts, dec = decode_lines(raw, scn.get('decode_errors'))
    defs = []
    for reg in scn['regs']:
        di, target = reg[0], reg[1]
        if target != fidx:
            if isinstance(target, int):
                continue
            # glob/dir registrations are resolved by the caller (catalog model)
            if fidx not in scn.get('_expanded', {}).get(target, []):
                continue
        d = scn['defs'][di]
        cons = cons_tables(scn, d.get('cons'), texts)
        if d['type'] == 'simple':
            defs.append({'id': di, 'type': 'simple',
                         'sd': _sd_tables(d, texts, intern, tag=d.get('tag')),
                         'cons': cons})
        else:
            defs.append({'id': di, 'type': 'seq', 'tag': d['tag'], 'cons': cons,
                         'start': _sd_tables(d['start'], texts, intern),
                         'body': (_sd_tables(d['body'], texts, intern)
                                  if d.get('body') else None),
                         'end': (_sd_tables(d['end'], texts, intern)
                                 if d.get('end') else None)})
    case = {'kind': 'task', 'n': len(raw), 'dec': dec, 'defs': defs,
            'K': scenario_K(scn)}
    return case, intern


def canon_model_results(results, intern):
    """ model results -> the same shape as observe_result produces """
    secmap = {}
    out = []
    for r in results:
        sec = r['sec']
        if sec is not None:
            key = tuple(sec)
            if key not in secmap:
                secmap[key] = len(secmap)
            sec = secmap[key]
        out.append({'ln': r['ln'], 'tag': r['tag'], 'seq': r['seq'], 'sec': sec,
                    'iter': [intern.back(v) for v in r['iter']],
                    'byidx': [intern.back(v) for v in r['byidx']],
                    'byname': {k: [intern.back(v[0]), intern.back(v[1])]
                               for k, v in r['byname'].items()}})
    return out


def by_tag(results):
    """ per-tag ordered lists: the cross-tag order is not part of any property """
    out = {}
    for r in results:
        out.setdefault(str(r['tag']), []).append(r)
    return out


# --------------------------------------------------------------------------
# file-level constraint: does it apply to a file?
# --------------------------------------------------------------------------

def restricted_defs(scn):
    """ defs registered anywhere with allow_global_constraints=False """
    return {r[0] for r in scn['regs'] if len(r) > 2 and not r[2]}


def defs_on_file(scn, fidx):
    out = []
    for r in scn['regs']:
        if r[1] == fidx or (not isinstance(r[1], int) and
                            fidx in scn.get('_expanded', {}).get(r[1], [])):
            out.append(r[0])
    return out


def global_applies(scn, fidx):
    if scn.get('global') is None:
        return False
    return not (restricted_defs(scn) & set(defs_on_file(scn, fidx)))
