"""
Timestamp matcher classes handed to searchkit (subclasses of its
TimestampMatcherBase), and the harness's own *independent* oracle for what each of
them should extract from a line.  Importing this module imports searchkit: only do
so inside a worker (see core.import_searchkit).
"""
import re
from datetime import datetime

from vh.core import import_searchkit

import_searchkit()
from searchkit.constraints import TimestampMatcherBase  # noqa: E402


STD = (r'^(?P<year>\d{4})-(?P<month>\d{2})-(?P<day>\d{2})[\sT]+'
       r'(?P<hours>\d{2}):(?P<minutes>\d{2}):(?P<seconds>\d{2})')
BRK = (r'^\[(?P<day>\d{2})/(?P<month>\d{2})/(?P<year>\d{4}) '
       r'(?P<hours>\d{2}):(?P<minutes>\d{2}):(?P<seconds>\d{2})\]')
USYY = (r'^(?P<month>\d{2})/(?P<day>\d{2})/(?P<yy>\d{2}) '
        r'(?P<hours>\d{2}):(?P<minutes>\d{2}):(?P<seconds>\d{2})')


LOOSE = (r'^(?P<year>\d{4})-(?P<month>\d{2})-(?P<day>\d{2})\s+'
         r'(?P<hours>\d{2}):(?P<minutes>\d{2}):(?P<seconds>\d+)')


class LooseMatcher(TimestampMatcherBase):
    """ unbounded numeric field, as in the repository's own test matchers """
    @property
    def patterns(self):
        return [LOOSE]


AMPM = (r'^(?P<year>\d{4})-(?P<month>\d{2})-(?P<day>\d{2}) '
        r'(?P<h12>\d{2}):(?P<minutes>\d{2}):(?P<seconds>\d{2}) (?P<ampm>AM|PM)')
NOSEC = (r'^(?P<year>\d{4})-(?P<month>\d{2})-(?P<day>\d{2}) (?P<hours>\d{2})h(?P<minutes>\d{2})\b')


class AmPmMatcher(TimestampMatcherBase):
    """ hours derived by an override property that returns an int (0 for 12 AM) """
    @property
    def patterns(self):
        return [AMPM]

    @property
    def hours(self):
        h = int(self.result.group('h12')) % 12
        return h + 12 if self.result.group('ampm') == 'PM' else h


class NoSecMatcher(TimestampMatcherBase):
    """ a format without seconds: the override property supplies the int 0 """
    @property
    def patterns(self):
        return [NOSEC]

    @property
    def seconds(self):
        return 0


FRAC = (r'^(?P<year>\d{4})-(?P<month>\d{2})-(?P<day>\d{2})[\sT]+'
        r'(?P<hours>\d{2}):(?P<minutes>\d{2}):(?P<seconds>\d{2})(?P<fraction>[.,]\d+)?'
        r'(?: ?(?P<tz>[+-]\d{4}|Z))?')


class FracMatcher(TimestampMatcherBase):
    """ optional groups (fraction of a second, zone) besides the six date-time fields: they
    may or may not take part in a match """
    @property
    def patterns(self):
        return [FRAC]


class StdMatcher(TimestampMatcherBase):
    """ one pattern, every field read straight from the match """
    @property
    def patterns(self):
        return [STD]


class MultiMatcher(TimestampMatcherBase):
    """ several patterns, first that matches wins """
    @property
    def patterns(self):
        return [BRK, STD]


class DerivedMatcher(TimestampMatcherBase):
    """ a field (year) derived by an override property """
    @property
    def patterns(self):
        return [USYY]

    @property
    def year(self):
        return '20' + self.result.group('yy')


class SubBrkMatcher(StdMatcher):
    """ a matcher derived from another CONCRETE matcher, overriding its patterns """
    @property
    def patterns(self):
        return [BRK]


MATCHERS = {'std': StdMatcher, 'multi': MultiMatcher, 'derived': DerivedMatcher,
            'loose': LooseMatcher, 'ampm': AmPmMatcher, 'nosec': NoSecMatcher,
            'subbrk': SubBrkMatcher, 'frac': FracMatcher}
_PATTERNS = {'std': [STD], 'multi': [BRK, STD], 'derived': [USYY], 'loose': [LOOSE], 'ampm': [AMPM],
             'nosec': [NOSEC], 'subbrk': [BRK], 'frac': [FRAC]}
DATE_FORMAT = '%Y-%m-%d %H:%M:%S'


def oracle_ts(kind, text):
    return oracle_ts_full(kind, text)[0]


def oracle_ts_full(kind, text):
    """
    -> (datetime | None, number of bytes of the line start the timestamp occupies)

    What the property says the timestamp of a line is: the first pattern of the
    matcher that matches at the start of the line, read as a calendar date/time;
    text that merely looks like a timestamp (not a real date) is no timestamp.
    Written with re/datetime directly, never through searchkit.
    """
    if isinstance(text, bytes):
        text = text.decode('utf-8', errors='backslashreplace')
    for pat in _PATTERNS[kind]:
        m = re.match(pat, text)
        if m:
            g = m.groupdict()
            year = int('20' + g['yy']) if 'yy' in g else int(g['year'])
            mlen = len(text[:m.end()].encode('utf-8'))
            if 'h12' in g:
                hours = int(g['h12']) % 12 + (12 if g['ampm'] == 'PM' else 0)
            else:
                hours = int(g['hours'])
            seconds = int(g['seconds']) if 'seconds' in g else 0
            try:
                return datetime(year, int(g['month']), int(g['day']),
                                hours, int(g['minutes']), seconds), mlen
            except (ValueError, OverflowError):
                return None, 0
    return None, 0


def near_miss(kind, dt, rng):
    """ dt rendered for `kind` with ONE field pushed just out of range (seconds 60.., minutes
    60..): looks like a timestamp of that very moment, is not one """
    import re as _re
    s = fmt_ts(kind, dt, rng)
    bad = rng.choice(['60', '60', '61', '75', '99'])
    fields = list(_re.finditer(r'[:h]\d\d', s))
    if not fields:
        return s
    m = fields[-1] if rng.random() < 0.7 else fields[0]
    return s[:m.start() + 1] + bad + s[m.end():]


def fmt_ts(kind, dt, rng=None):
    """ Render dt in a form the matcher `kind` recognises. """
    if kind == 'ampm':
        h12 = dt.hour % 12 or 12
        return dt.strftime('%Y-%m-%d ') + f"{h12:02d}" + dt.strftime(':%M:%S ') + \
            ('PM' if dt.hour >= 12 else 'AM')
    if kind == 'nosec':
        return dt.strftime('%Y-%m-%d %Hh%M')
    if kind == 'derived':
        return dt.strftime('%m/%d/') + f"{dt.year % 100:02d}" + dt.strftime(' %H:%M:%S')
    if kind == 'subbrk' or (kind == 'multi' and rng is not None and rng.random() < 0.5):
        return dt.strftime('[%d/%m/%Y %H:%M:%S]')
    sep = ' '
    if rng is not None and rng.random() < 0.15:
        sep = rng.choice(['T', '  ', '\t'])
    tail = ''
    if kind == 'frac' and rng is not None:
        tail = rng.choice(['', '', '.123', ',5', '.000001 +0100', ' Z', '.9Z'])
    return dt.strftime('%Y-%m-%d') + sep + dt.strftime('%H:%M:%S') + tail
