"""
One fault plan, executed in its own interpreter (its own session; the parent kills the
whole process group afterwards):

    python -m vh.faultrun <plan.json> <report.jsonl>

The plan names a point of a worker's life, which file's task is hit, an occurrence
count and a kind ('exit' = os._exit, 'raise' = a Python exception, 'none' = control).
All instrumentation is installed from outside by wrapping module-level names before the
pool forks; nothing in /repo is modified.  Progress is appended to the report file line
by line so that a hang leaves a partial report behind.
"""
import faulthandler
import json
import multiprocessing
import os
import sys
import tempfile
import threading
import time

HERE = os.path.dirname(os.path.abspath(__file__))
sys.dont_write_bytecode = True
sys.path.insert(0, os.path.dirname(HERE))

from vh import core  # noqa: E402

POINTS = ['before_open', 'mid_file', 'put_before', 'put_after', 'alloc_before',
          'alloc_inside', 'alloc_after', 'sync_before', 'sync_inside', 'sync_after',
          'after_last']


class Injected(RuntimeError):
    pass


class LockWrapper:
    """ delegates to the real multiprocessing lock; callback right after acquisition """
    def __init__(self, real, on_acquired):
        self.real = real
        self.on_acquired = on_acquired

    def acquire(self, *a, **k):
        r = self.real.acquire(*a, **k)
        if r:
            try:
                self.on_acquired()
            except BaseException:
                self.real.release()
                raise
        return r

    def release(self):
        return self.real.release()

    def __enter__(self):
        self.acquire()
        return self

    def __exit__(self, *a):
        self.release()


def main():
    plan = json.load(open(sys.argv[1]))
    report_path = sys.argv[2]

    def report(**kw):
        with open(report_path, 'a') as f:
            f.write(json.dumps(kw) + '\n')

    dump = open(report_path + '.stacks', 'w')
    faulthandler.dump_traceback_later(plan.get('dump_after', 30), file=dump, exit=False)

    core.import_searchkit()
    from searchkit import FileSearcher, SearchDef, SequenceSearchDef
    from searchkit import task as TK, search as SR, results_store as RS
    from searchkit.exception import FileSearchException

    main_pid = os.getpid()
    tmp = tempfile.mkdtemp(prefix='vh-fault-')
    paths = []
    nfiles = plan['nfiles']
    for i in range(nfiles):
        p = os.path.join(tmp, f'f{i}.log')
        # 'gz': the files are gzip-compressed (the task reads them through gzip.open)
        opener = (lambda q: __import__('gzip').open(q, 'wt')) if plan.get('gz') else \
            (lambda q: open(q, 'w'))
        with opener(p) as f:
            # 'big': the files that are NOT hit produce far more result batches than the
            # (patched-down) results queue holds
            nlines = plan['big'] if plan.get('big') and i != plan['file'] else plan.get('lines', 40)
            for k in range(nlines):
                f.write(f"S item{i}_{k} value{k % 7}\n" if k % 5 == 0 else
                        f"B item{i}_{k} value{k % 7}\n" if k % 5 else f"E end{k}\n")
        paths.append(p)
    target = paths[plan['file']] if plan['kind'] != 'none' else None
    good_bytes = None
    if plan['kind'] == 'corrupt':
        # a NATURAL fault: the gzip file itself is damaged (bad CRC / truncated / trailing junk)
        with open(target, 'rb') as f:
            good_bytes = f.read()
        bad = bytearray(good_bytes)
        if plan['how'] == 'crc':
            bad[-6] ^= 0xff
        elif plan['how'] == 'trunc':
            bad = bad[:len(bad) // 2]
        else:
            bad += b'trailing junk that is not a gzip member'
        with open(target, 'wb') as f:
            f.write(bytes(bad))
    if plan['kind'] == 'gone':
        # another NATURAL fault: the file is registered, then disappears before run() (removed
        # by logrotate / left as a dangling symlink)
        with open(target, 'rb') as f:
            good_bytes = f.read()
    fired = os.path.join(tmp, '_fired')
    state = {'path': None, 'in_alloc': False, 'in_sync': False, 'count': {}}

    def hit(point):
        """ called at every instrumented point inside a worker """
        if os.getpid() == main_pid or plan['kind'] == 'none' or state['path'] != target:
            return
        if point != plan['point']:
            return
        c = state['count'].get(point, 0) + 1
        state['count'][point] = c
        if c != plan.get('k', 1) or os.path.exists(fired):
            return
        open(fired, 'w').close()
        if plan.get('hold'):
            # stay where we are (e.g. inside the lock) across one of the info thread's
            # 5-second polls before dying
            time.sleep(plan['hold'])
        if plan['kind'] == 'exit':
            os._exit(3)
        if plan.get('exc') == 'unpicklable':
            # an exception object that cannot cross the process boundary (as raised by a user's
            # field converter / timestamp matcher holding a match object, a lock, a lambda)
            import re as _re

            class LocalError(ValueError):         # a class pickle cannot find
                pass
            err = LocalError(f"injected at {point}")
            err.match = _re.match('x', 'x')
            err.callback = lambda: None
            raise err
        if plan.get('exc') == 'OSError':
            # e.g. EIO from the disk / a damaged gzip member while the file is being read
            raise OSError(5, f"Input/output error (injected at {point})")
        raise Injected(f"injected at {point}")

    orig_execute = TK.SearchTask.execute
    # private names: hooked where they exist.  After a refactoring that renamed one, the plans
    # that need it simply do not fire (counted as fault_not_reached), the check does not break.
    orig_simple = getattr(TK.SearchTask, '_simple_search', None)
    orig_put = getattr(TK.SearchTask, 'put_result', None)
    orig_pre = getattr(RS.ResultStoreParallel, 'preallocate', None)
    orig_sync = getattr(RS.ResultStoreParallel, 'sync', None)
    orig_getsize = os.path.getsize

    def execute(self):
        state['path'] = self.info['path']
        state['count'] = {}
        st = orig_execute(self)
        if plan['kind'] == 'exit':
            hit('after_last')
        return st
    execute.__name__ = 'execute'
    execute.__qualname__ = 'SearchTask.execute'

    def getsize(p):
        if p == state['path']:
            hit('before_open')
        return orig_getsize(p)

    def _simple_search(self, *a, **k):
        hit('mid_file')
        return orig_simple(self, *a, **k)

    def put_result(self, results):
        hit('put_before')
        r = orig_put(self, results)
        hit('put_after')
        return r

    def preallocate(self, size):
        hit('alloc_before')
        state['in_alloc'] = True
        try:
            r = orig_pre(self, size)
        finally:
            state['in_alloc'] = False
        hit('alloc_after')
        return r

    def sync(self):
        hit('sync_before')
        state['in_sync'] = True
        try:
            r = orig_sync(self)
        finally:
            state['in_sync'] = False
        hit('sync_after')
        return r

    orig_add_to = getattr(RS.ResultStoreParallel, '_add_to_store', None)

    def _add_to_store(self, value, store, idx=None):
        # called with an explicit idx only from sync(), inside its critical section
        if idx is not None and state['in_sync']:
            hit('sync_inside')
        return orig_add_to(self, value, store, idx=idx)

    class LogProxy:
        """ results_store's logger: preallocate() logs the granted range INSIDE its
        critical section, after the pointer has been advanced """
        def __init__(self, real):
            self._real = real

        def debug(self, msg, *a, **k):
            if state['in_alloc'] and 'allocated range' in str(msg):
                hit('alloc_inside')
            return self._real.debug(msg, *a, **k)

        def __getattr__(self, name):
            return getattr(self._real, name)

    if plan.get('queue_size'):
        TK.RESULTS_QUEUE_SIZE = plan['queue_size']
        SR.RESULTS_QUEUE_SIZE = plan['queue_size']
    TK.SearchTask.execute = execute
    if orig_simple is not None:
        TK.SearchTask._simple_search = _simple_search
    else:
        # fallback for 'mid_file': the per-line entry point of a search definition
        from searchkit import searchdef as SD
        orig_sd_run = SD.SearchDef.run

        def sd_run(self, *a, **k):
            hit('mid_file')
            return orig_sd_run(self, *a, **k)
        SD.SearchDef.run = sd_run
    if orig_put is not None:
        TK.SearchTask.put_result = put_result
    if orig_pre is not None:
        RS.ResultStoreParallel.preallocate = preallocate
    if orig_sync is not None:
        RS.ResultStoreParallel.sync = sync
    if orig_add_to is not None:
        RS.ResultStoreParallel._add_to_store = _add_to_store
    if hasattr(RS, 'log'):
        RS.log = LogProxy(RS.log)
    os.path.getsize = getsize
    real_lock = RS.RESULTS_STORE_LOCK

    def searcher():
        fs = FileSearcher(max_parallel_tasks=plan['workers'],
                          decode_errors=plan.get('decode'))
        sd = SearchDef(r'(\S) (\S+) (\S+)', tag='t')
        seq = SequenceSearchDef(start=SearchDef(r'S (\S+)'), body=SearchDef(r'B (\S+)'),
                                end=SearchDef(r'E (\S+)'), tag='q')
        for p in paths:
            fs.add(sd, p)
            fs.add(seq, p)
        return fs

    def leftovers():
        time.sleep(0.2)
        kids = [c.pid for c in multiprocessing.active_children()]
        try:
            import psutil
            procs = [p.pid for p in psutil.Process().children(recursive=True)
                     if p.status() != psutil.STATUS_ZOMBIE]
        except Exception:  # pylint: disable=broad-except
            procs = kids
        threads = sorted(t.name for t in threading.enumerate()
                         if t is not threading.main_thread())
        store_free = real_lock.acquire(False)
        if store_free:
            real_lock.release()
        coll_free = SR.RESULTS_COLLECTION_LOCK.acquire(False)
        if coll_free:
            SR.RESULTS_COLLECTION_LOCK.release()
        return {'children': procs, 'threads': threads, 'store_lock_free': store_free,
                'collection_lock_free': coll_free}

    if plan['kind'] == 'inproc':
        # a task that fails IN THE CALLING PROCESS (one file: no workers) on undecodable input
        # inside an open section, then further runs that re-use the same definition objects
        def mk_defs():
            return (SearchDef(r'(\S) (\S+)', tag='t'),
                    SequenceSearchDef(start=SearchDef(r'S (\S+)'), body=SearchDef(r'B (\S+)'),
                                      end=SearchDef(r'E (\S+)') if plan.get('end', True) else None,
                                      tag='q'))
        bad = os.path.join(tmp, 'bad.log')
        with open(bad, 'wb') as f:
            f.write(b'S first\nB inside\n\xff\xfe not utf-8\nE never\n')
        good = []
        for i in range(plan.get('files2', 1)):
            p = os.path.join(tmp, f'good{i}.log')
            with open(p, 'w') as f:
                f.write('B orphan body\nE orphan end\nS one\nB two\nE three\nS open\nB four\n')
            good.append(p)

        def second(defs):
            fs = FileSearcher(max_parallel_tasks=2)
            for p in good:
                for d in defs:
                    fs.add(d, p)
            res = fs.run()
            out = {}
            for p in good:
                secs = res.find_sequence_sections(defs[1], path=p)
                out[os.path.basename(p)] = sorted([[r.tag, r.linenumber] for r in sec]
                                                  for sec in secs.values())
            out['n'] = len(res)
            return out
        report(stage='start', plan=plan)
        defs = mk_defs()
        t0 = time.monotonic()
        try:
            fs = FileSearcher()
            for d in defs:
                fs.add(d, bad)
            fs.run()
            out1 = {'outcome': 'returned'}
        except FileSearchException:
            out1 = {'outcome': 'FileSearchException'}
        except UnicodeDecodeError:
            out1 = {'outcome': 'UnicodeDecodeError'}
        except BaseException as e:  # pylint: disable=broad-except
            out1 = {'outcome': 'other:' + type(e).__name__}
        out1['latency'] = round(time.monotonic() - t0, 2)
        out1['fired'] = True
        report(stage='run1', **out1)
        report(stage='leftovers1', **leftovers())
        try:
            got = second(defs)
            want = second(mk_defs())
            out2 = {'outcome': 'returned', 'n': got['n'], 'per_path': got, 'fresh_defs': want}
        except BaseException as e:  # pylint: disable=broad-except
            out2 = {'outcome': 'raised:' + type(e).__name__}
        report(stage='run2', **out2)
        report(stage='leftovers2', **leftovers())
        faulthandler.cancel_dump_traceback_later()
        report(stage='end')
        core.cov_save()
        os._exit(0)

    report(stage='start', plan=plan)
    t0 = time.monotonic()
    try:
        fs1 = searcher()
        if plan['kind'] == 'gone':
            os.remove(target)
            if plan['how'] == 'dangling':
                os.symlink(target + '.nowhere', target)
        res = fs1.run()
        out1 = {'outcome': 'returned', 'n': len(res)}
    except FileSearchException:
        out1 = {'outcome': 'FileSearchException'}
    except UnicodeDecodeError:
        out1 = {'outcome': 'UnicodeDecodeError'}
    except BaseException as e:  # pylint: disable=broad-except
        out1 = {'outcome': 'other:' + type(e).__name__}
    out1['latency'] = round(time.monotonic() - t0, 2)
    out1['fired'] = os.path.exists(fired) or plan['kind'] in ('corrupt', 'gone')
    report(stage='run1', **out1)
    report(stage='leftovers1', **leftovers())
    if good_bytes is not None:
        if os.path.islink(target):
            os.remove(target)
        with open(target, 'wb') as f:          # the file is repaired before the second run
            f.write(good_bytes)
    # a fresh run in the same process, no fault
    plan['kind'] = 'none'
    target = None
    t0 = time.monotonic()
    try:
        res = searcher().run()
        per = sorted(len(res.find_by_path(p)) for p in paths)
        out2 = {'outcome': 'returned', 'n': len(res), 'per_path': per}
    except BaseException as e:  # pylint: disable=broad-except
        out2 = {'outcome': 'raised:' + type(e).__name__}
    out2['latency'] = round(time.monotonic() - t0, 2)
    report(stage='run2', **out2)
    report(stage='leftovers2', **leftovers())
    faulthandler.cancel_dump_traceback_later()
    report(stage='end')
    core.cov_save()
    os._exit(0)


if __name__ == '__main__':
    main()
