"""
pytolean - a translator from a small imperative fragment of Python to Lean 4.

Second tie between /repo and the Lean side (the first is the correspondence check): the
functions listed in FUNCS are read from the CURRENT source of searchkit (ast), translated
into shallow Lean definitions (`lean/SkModel/Gen/Generated.lean` is the translation of the
pinned tree; on every run the translation is redone and, when it differs, the bridge theorems
of `lean/SkModel/Gen/Bridge.lean` are re-checked against the new text).  The bridge theorems
state that the translated function IS the hand-written model function the property theorems
are about.

Fragment: int / bool expressions (+ - * // %, comparisons, and / or / not with Python's
truthiness and value semantics, conditional expressions, min / max / len), assignments to
local names, `self.x = e` (a local named self_x), augmented assignments, if / elif / else,
while (incl. `while True`), break, continue, return, raise, and a table of recognised
library idioms (PRIMS below: file seek / read, bytes find / rfind, SearchState(...),
class constants, os.cpu_count(), len(self.files), timedelta(...)).  Logging calls, doc
strings and assignments of f-strings are dropped.  Anything else raises Untranslatable: the
bridge is then reported as not available for this tree (informational; the correspondence
check remains the tie).

Translation scheme: statements are translated in continuation-passing style into one Lean
expression; an assignment is a `let` (shadowing = mutation); a `while` loop becomes a
top-level structurally recursive function over a fuel argument whose other arguments are the
function's parameters and every local defined at loop entry (fuel exhausted = `.diverge`,
which the bridge theorems show never happens for fuel above the code's own attempt limit).
"""
import ast
import os
import textwrap


class Untranslatable(Exception):
    pass


INT, BOOL, CHUNK, STR, RES = 'Int', 'Bool', 'Sk.Py.Chunk', 'Str', 'Sk.Tok'
TOK = RES
LLINE = 'Sk.LLine'
OPTLLINE = 'Option Sk.LLine'   # a LogLine or None
STATUS = 'Sk.Py.Status'
NAT = 'Nat'
VAL = 'Sk.Val'
OPTVAL = 'Option Sk.Val'
OPTNAT = 'Option Nat'
LISTN = 'List Nat'
OPTLISTN = 'Option (List Nat)'
DICTNV = 'List (Nat × Sk.Val)'       # a dict index -> value, in insertion order
DICTVN = 'List (Sk.Val × Nat)'       # a dict value -> index
COUT = 'Sk.COut'                     # what one constraint says about one line (oracle)
LISTC = 'List Sk.COut'
STRV = 'List Char'                   # a str VALUE the function computes on (a file name)
PAIRB = 'Bool × Bool'
OPTMATCH = 'Option (Option Nat)'      # re.Match or None: some none = matched, no group;
MATCH = 'Option Nat'                  # some (some n) = matched, int(group(1)) = n
BASE_OF = {}                          # optional type -> what it holds (filled below)
NONE = 'None'                  # the constant None (coerced to the optional type it meets)
OPTINT = 'Option Int'          # an int or None
OPTDT = 'Option  Int'          # a datetime (as seconds) or None: every non-None value is truthy
                               # (two blanks: a distinct tag for the translator, same Lean type)


BASE_OF.update({'Option (Option Nat)': 'Option Nat', 'Option Int': INT, 'Option  Int': INT, 'Option Sk.LLine': 'Sk.LLine',
                'Option Sk.Val': VAL, 'Option Nat': NAT, 'Option (List Nat)': LISTN})


class Ctx:
    """ per-function translation context """
    def __init__(self, spec):
        self.spec = spec
        self.types = dict(spec['params'])          # python name -> type
        self.order = [p for p, _ in spec['params']]
        self.aux = []                              # emitted loop functions
        self.nloops = 0
        self.ret = spec['ret']
        self.dead = set()
        self.dead_none = set()
        self.strconst = {}          # local name -> string literal it currently holds
        self.strlists = {}          # local name -> list of string literals

    def define(self, name, typ):
        if name not in self.types:
            self.order.append(name)
        self.types[name] = typ

    def defined(self):
        return [n for n in self.order if self.types.get(n) not in (STR, None)]


def lname(n):
    """ Lean identifier for a Python local """
    return n if n not in ('at', 'from', 'end', 'open', 'then', 'fun', 'by', 'do') else n + '_'


def unparse(e):
    return ast.unparse(e)


# ---------------------------------------------------------------------------------------
# expressions
# ---------------------------------------------------------------------------------------

def expr(cx, e):
    """ -> (lean text, type) for a VALUE-position expression """
    src = unparse(e)
    prim = cx.spec.get('consts', {})
    if src in prim:
        return prim[src]
    if isinstance(e, ast.Constant):
        if isinstance(e.value, bool):
            return ('true' if e.value else 'false'), BOOL
        if isinstance(e.value, int):
            if cx.spec.get('nat'):
                return (f'({e.value} : Nat)', NAT)
            return (f'({e.value} : Int)', INT)
        if isinstance(e.value, str):
            return '""', STR
        if e.value is None:
            return 'none', NONE
        raise Untranslatable(f'constant {src}')
    if isinstance(e, ast.JoinedStr):
        return '""', STR
    if isinstance(e, ast.Name):
        if e.id in cx.types:
            return lname(e.id), cx.types[e.id]
        raise Untranslatable(f'unknown name {e.id}')
    if isinstance(e, ast.Subscript) and not isinstance(e.value, ast.Tuple):
        t, ty = expr(cx, e.value)
        if ty == LISTN and unparse(e.slice) == '-1':
            # IndexError on an empty list is outside the fragment (the bridge assumes blocks
            # are not empty)
            return f'(Sk.Py.listLast {t})', NAT
        if ty == DICTVN:
            k, tk = expr(cx, e.slice)
            need(tk, VAL, src)
            # KeyError is outside the fragment: the code only indexes after a membership test
            return f'(Sk.Py.dictGetV {t} {k})', NAT
        raise Untranslatable(f'subscript {src}')
    if isinstance(e, ast.Subscript) and isinstance(e.value, ast.Tuple) and len(e.value.elts) == 2:
        # (a, b)[flag]: False selects a, True selects b
        i, ti = expr(cx, e.slice)
        need(ti, BOOL, src)
        (a, ta), (b, tb) = expr(cx, e.value.elts[0]), expr(cx, e.value.elts[1])
        if ta == NONE and tb in (OPTINT, OPTDT, OPTLLINE):
            ta = tb
        if tb == NONE and ta in (OPTINT, OPTDT, OPTLLINE):
            tb = ta
        if ta == NONE and tb == INT:
            ta, tb, b = OPTINT, OPTINT, f'(some {b})'
        if tb == NONE and ta == INT:
            ta, tb, a = OPTINT, OPTINT, f'(some {a})'
        if ta == OPTINT and tb == INT:
            tb, b = OPTINT, f'(some {b})'
        if tb == OPTINT and ta == INT:
            ta, a = OPTINT, f'(some {a})'
        if ta != tb or ta == NONE:
            raise Untranslatable(f'tuple elements of types {ta}, {tb} in {src}')
        return f'(if {i} = true then {b} else {a})', ta
    if isinstance(e, ast.Attribute) and not (isinstance(e.value, ast.Name) and
                                             e.value.id == 'self'):
        try:
            t, ty = expr(cx, e.value)
        except Untranslatable:
            t, ty = None, None
        if ty == TOK and e.attr == 'offset':
            return f'(Sk.Tok.off {t})', INT
        if ty == TOK and e.attr == 'status':
            return f'(Sk.Py.tokStatus {t})', STATUS
        if ty == LLINE and e.attr in ('start_lf', 'end_lf'):
            return f"({t}.{'slf' if e.attr == 'start_lf' else 'elf'})", TOK
        if ty == LLINE and e.attr == 'date' and cx.spec.get('ts_oracle'):
            return f'(Sk.LLine.date ts {t})', OPTDT
    if isinstance(e, ast.Attribute) and isinstance(e.value, ast.Name) and e.value.id == 'self':
        nm = 'self_' + e.attr
        if nm in cx.types:
            return lname(nm), cx.types[nm]
        raise Untranslatable(f'unknown attribute {src}')
    if isinstance(e, ast.UnaryOp):
        if isinstance(e.op, ast.UAdd):
            t, ty = expr(cx, e.operand)
            need(ty, INT, src)
            return t, INT
        if isinstance(e.op, ast.USub):
            t, ty = expr(cx, e.operand)
            need(ty, INT, src)
            return f'(-{t})', INT
        if isinstance(e.op, ast.Not):
            return f'(decide {prop(cx, e)})', BOOL
    if isinstance(e, ast.BinOp):
        a, ta = expr(cx, e.left)
        b, tb = expr(cx, e.right)
        if ta == NAT and tb == NAT:
            op = {ast.Add: '+', ast.Mult: '*', ast.Mod: '%'}.get(type(e.op))
            if op == '%':
                # Python raises ZeroDivisionError for % 0; the bridge theorems assume a
                # non-zero block size
                return f'({a} % {b})', NAT
            if op:
                return f'({a} {op} {b})', NAT
            raise Untranslatable(f'operator on naturals in {src}')
        need(ta, INT, src)
        need(tb, INT, src)
        op = {ast.Add: '+', ast.Sub: '-', ast.Mult: '*'}.get(type(e.op))
        if op:
            return f'({a} {op} {b})', INT
        if isinstance(e.op, ast.FloorDiv):
            return f'(Sk.Py.floordiv {a} {b})', INT
        if isinstance(e.op, ast.Mod):
            return f'(Sk.Py.pymod {a} {b})', INT
        raise Untranslatable(f'operator in {src}')
    if isinstance(e, ast.Compare):
        return f'(decide {prop(cx, e)})', BOOL
    if isinstance(e, ast.BoolOp):
        # Python's and / or return one of the operands
        vals = [expr(cx, v) for v in e.values]
        tys = {t for _, t in vals}
        if tys == {BOOL}:
            return f'(decide {prop(cx, e)})', BOOL
        if tys == {INT}:
            out = vals[-1][0]
            for t, _ in reversed(vals[:-1]):
                if isinstance(e.op, ast.Or):
                    out = f'(if {t} ≠ 0 then {t} else {out})'
                else:
                    out = f'(if {t} ≠ 0 then {out} else {t})'
            return out, INT
        raise Untranslatable(f'mixed-type boolean operator in {src}')
    if isinstance(e, ast.IfExp):
        a, ta = expr(cx, e.body)
        b, tb = expr(cx, e.orelse)
        if ta != tb:
            raise Untranslatable(f'branches of different type in {src}')
        return f'(if {prop(cx, e.test)} then {a} else {b})', ta
    if isinstance(e, ast.Call):
        return call(cx, e)
    raise Untranslatable(f'expression {src}')


def need(ty, want, src):
    if ty != want:
        raise Untranslatable(f'{src}: {ty} where {want} is needed')


def prop(cx, e):
    """ -> lean Prop text (decidable) for a CONDITION-position expression (truthiness) """
    src = unparse(e)
    if isinstance(e, ast.UnaryOp) and isinstance(e.op, ast.Not):
        return f'(¬ {prop(cx, e.operand)})'
    if isinstance(e, ast.BoolOp):
        op = ' ∧ ' if isinstance(e.op, ast.And) else ' ∨ '
        return '(' + op.join(prop(cx, v) for v in e.values) + ')'
    if isinstance(e, ast.Compare):
        parts = []
        left = e.left
        for op, right in zip(e.ops, e.comparators):
            a, ta = expr(cx, left)
            if isinstance(op, (ast.Is, ast.IsNot)):
                if ta in (OPTINT, OPTDT) and isinstance(right, ast.Constant) and \
                        right.value is None and len(e.ops) == 1:
                    return f"({a} {'=' if isinstance(op, ast.Is) else '≠'} none)"
                raise Untranslatable(f'identity test in {src}')
            b, tb = expr(cx, right)
            if isinstance(op, (ast.In, ast.NotIn)):
                if tb == DICTNV and ta == NAT:
                    t = f'(Sk.Py.dictHas {b} {a} = true)'
                elif tb == DICTVN and ta == VAL:
                    t = f'(Sk.Py.dictHasV {b} {a} = true)'
                else:
                    raise Untranslatable(f'membership of {ta} in {tb} in {src}')
                parts.append(t if isinstance(op, ast.In) else f'(¬ {t})')
                left = right
                continue
            if ta == VAL and tb == VAL and isinstance(op, (ast.Eq, ast.NotEq)):
                parts.append(f"({a} {'=' if isinstance(op, ast.Eq) else '≠'} {b})")
                left = right
                continue
            if ta != tb or ta not in (INT, BOOL, STATUS, NAT):
                raise Untranslatable(f'comparison of {ta} with {tb} in {src}')
            o = {ast.Lt: '<', ast.LtE: '≤', ast.Gt: '>', ast.GtE: '≥', ast.Eq: '=',
                 ast.NotEq: '≠'}.get(type(op))
            if o is None or (ta in (BOOL, STATUS) and o not in ('=', '≠')):
                raise Untranslatable(f'comparison operator in {src}')
            parts.append(f'{a} {o} {b}')
            left = right
        return '(' + ' ∧ '.join(parts) + ')'
    if isinstance(e, ast.Constant) and isinstance(e.value, bool):
        return 'True' if e.value else 'False'
    t, ty = expr(cx, e)
    if ty == BOOL:
        return f'({t} = true)'
    if ty == INT:
        return f'({t} ≠ 0)'
    if ty == CHUNK:
        return f'({t}.len ≠ 0)'
    if ty == OPTDT:
        return f'({t} ≠ none)'
    if ty == LLINE:
        return f'(Sk.Py.lineLen {t} ≠ 0)'          # LogLine.__len__
    if ty in (DICTNV, DICTVN, LISTN, LISTC):
        return f'({t} ≠ [])'
    if ty == OPTLISTN:
        return f'({t} ≠ none ∧ {t} ≠ some [])'
    if ty == OPTMATCH:
        return f'({t} ≠ none)'            # a Match object is always truthy
    if ty == MATCH:
        return 'True'
    if ty == NAT:
        return f'({t} ≠ 0)'
    if ty == OPTINT:
        return f'({t} ≠ none ∧ {t} ≠ some 0)'
    raise Untranslatable(f'truth value of {ty} in {src}')


def kwargs(e):
    return {k.arg: k.value for k in e.keywords}


def call(cx, e):
    src = unparse(e)
    fn = unparse(e.func)
    if cx.spec.get('regexes') is not None:
        rx = cx.spec['regexes']
        if isinstance(e.func, ast.Attribute) and e.func.attr == 'match' and \
                isinstance(e.func.value, ast.Call) and \
                unparse(e.func.value.func) == 're.compile' and len(e.func.value.args) == 1 and \
                len(e.args) == 1:
            a = e.func.value.args[0]
            pat = a.value if isinstance(a, ast.Constant) else cx.strconst.get(getattr(a, 'id', None))
            if pat not in rx:
                raise Untranslatable(f'regular expression {pat!r} has no model')
            t, ty = expr(cx, e.args[0])
            need(ty, STRV, src)
            return f'({rx[pat]} {t})', OPTMATCH
        if fn == 'len' and len(e.args) == 1 and isinstance(e.args[0], ast.Call) and \
                isinstance(e.args[0].func, ast.Attribute) and e.args[0].func.attr == 'groups':
            t, ty = expr(cx, e.args[0].func.value)
            if ty == MATCH:
                return f'(if {t} = none then (0 : Nat) else (1 : Nat))', NAT
        if fn == 'int' and len(e.args) == 1 and isinstance(e.args[0], ast.Call) and \
                isinstance(e.args[0].func, ast.Attribute) and e.args[0].func.attr == 'group' and \
                unparse(e.args[0].args[0]) == '1':
            t, ty = expr(cx, e.args[0].func.value)
            if ty == MATCH:
                # group(1) of a match without groups raises IndexError: outside the fragment
                return f'({t}.getD 0)', NAT
    if fn in ('min', 'max') and len(e.args) >= 2 and not e.keywords:
        vals = [expr(cx, a) for a in e.args]
        for _, t in vals:
            need(t, INT, src)
        out = vals[-1][0]
        for t, _ in reversed(vals[:-1]):
            out = f'({fn} {t} {out})'
        return out, INT
    if fn == 'len' and len(e.args) == 1:
        t, ty = expr(cx, e.args[0])
        if ty == CHUNK:
            return f'({t}.len : Int)', INT
        if ty in (DICTNV, DICTVN, LISTN):
            return f'({t}.length)', NAT
        raise Untranslatable(f'len of {ty} in {src}')
    # bytes.find / rfind of the line-feed token on a chunk read from the file
    if isinstance(e.func, ast.Attribute) and e.func.attr in ('find', 'rfind') and len(e.args) == 1:
        t, ty = expr(cx, e.func.value)
        tok = unparse(e.args[0])
        if ty == CHUNK and tok in cx.spec.get('lf_tokens', ()):
            return f'(Sk.Py.Chunk.{e.func.attr} F {t})', INT
        raise Untranslatable(f'{src}: find on {ty} / token {tok}')
    if fn == 'list' and len(e.args) == 1 and isinstance(e.args[0], ast.Call) and \
            unparse(e.args[0].func) == 'range' and len(e.args[0].args) == 2 and cx.spec.get('nat'):
        a, ta = expr(cx, e.args[0].args[0])
        b, tb = expr(cx, e.args[0].args[1])
        need(ta, NAT, src)
        need(tb, NAT, src)
        return f'(List.range\' {a} ({b} - {a}))', LISTN
    for pat, fn_ in cx.spec.get('calls', {}).items():
        if fn == pat:
            return fn_(cx, e)
    raise Untranslatable(f'call {src}')


# ---------------------------------------------------------------------------------------
# statements (continuation-passing)
# ---------------------------------------------------------------------------------------

def has_control(stmts):
    for s in stmts:
        for n in ast.walk(s):
            if isinstance(n, (ast.Return, ast.Raise, ast.Break, ast.Continue, ast.While, ast.For)):
                return True
            if isinstance(n, ast.Call) and is_file_op(n):
                return True
            if isinstance(n, ast.Call) and any(unparse(n.func) in sp.get('callees', {})
                                               for sp in FUNCS):
                return True             # a call of a translated function is a bind
    return False


def is_file_op(n):
    return isinstance(n.func, ast.Attribute) and unparse(n.func) in ('self.file.seek', 'self.file.read')


def assigned(stmts):
    out = []
    for s in stmts:
        for n in ast.walk(s):
            tg = []
            if isinstance(n, ast.Assign):
                tg = n.targets
            elif isinstance(n, ast.AugAssign):
                tg = [n.target]
            for t in tg:
                nm = target_name(t)
                if nm not in out:
                    out.append(nm)
            if isinstance(n, ast.Assign):
                # the modelled effect of an external call also assigns
                for sp in FUNCS:
                    for var, _new in sp.get('effects', {}).get(unparse(n.value), (0, 0, []))[2]:
                        if var not in out:
                            out.append(var)
    return out


def target_name(t):
    if isinstance(t, ast.Name):
        return t.id
    if isinstance(t, ast.Attribute) and isinstance(t.value, ast.Name) and t.value.id == 'self':
        return 'self_' + t.attr
    raise Untranslatable(f'assignment target {unparse(t)}')


def ind(s, n=2):
    return textwrap.indent(s, ' ' * n)


def block(cx, stmts, k, loop=None):
    """ translate stmts; k() gives the text of what follows when the block falls through;
    loop = (continue_text_fn, break_text_fn) inside a while body """
    if not stmts:
        return k()
    s, rest = stmts[0], stmts[1:]

    def after():
        return block(cx, rest, k, loop)

    if isinstance(s, ast.Expr):
        if isinstance(s.value, ast.Constant) and isinstance(s.value.value, str):
            return after()                                   # doc string
        if isinstance(s.value, ast.Call):
            fn = unparse(s.value.func)
            if fn in cx.spec.get('drop_calls', ('log.debug', 'log.info', 'log.warning')):
                return after()
            if fn == 'self.file.seek' and len(s.value.args) == 1:
                t, ty = expr(cx, s.value.args[0])
                need(ty, INT, unparse(s))
                cx.define('_pos', INT)
                return (f'if {t} < 0 then Sk.Py.Res.exc "ValueError" else\n'
                        f'let _pos : Int := {t}\n' + after())
        raise Untranslatable(f'statement {unparse(s)}')
    if isinstance(s, ast.Assign) and len(s.targets) == 1 and \
            isinstance(s.targets[0], ast.Subscript):
        # d[k] = v on a dict local
        tg = s.targets[0]
        d, td = expr(cx, tg.value)
        kx, tk = expr(cx, tg.slice)
        v, tv = expr(cx, s.value)
        dn = target_name(tg.value)
        if (td, tk, tv) == (DICTNV, NAT, VAL):
            return f'let {lname(dn)} : {td} := Sk.Py.dictSet {d} {kx} {v}\n' + after()
        if (td, tk, tv) == (DICTVN, VAL, NAT):
            return f'let {lname(dn)} : {td} := Sk.Py.dictSetV {d} {kx} {v}\n' + after()
        raise Untranslatable(f'statement {unparse(s)}')
    if isinstance(s, ast.Assign) and len(s.targets) == 1 and isinstance(s.targets[0], ast.Name) \
            and isinstance(s.value, ast.List) and s.value.elts and \
            all(isinstance(x, ast.Constant) and isinstance(x.value, str) for x in s.value.elts):
        cx.strlists[s.targets[0].id] = [x.value for x in s.value.elts]
        return after()
    if isinstance(s, ast.Assign) and unparse(s.value) in cx.spec.get('effects', {}):
        # a call of an external function with a modelled effect (the pre-allocator)
        val_t, val_ty, updates = cx.spec['effects'][unparse(s.value)]
        nm = target_name(s.targets[0])
        want = dict(cx.spec['params']).get(nm)
        if want in BASE_OF and BASE_OF[want] == val_ty:
            val_t, val_ty = f'(some {val_t})', want
        cx.define(nm, val_ty)
        out = f'let {lname(nm)} : {val_ty} := {val_t}\n'
        for var, new in updates:
            out += f'let {lname(var)} : {cx.types[var]} := {new}\n'
        return out + after()
    if isinstance(s, (ast.Assign, ast.AugAssign)):
        if isinstance(s, ast.Assign):
            if len(s.targets) != 1:
                raise Untranslatable(f'statement {unparse(s)}')
            nm, val = target_name(s.targets[0]), s.value
        else:
            nm = target_name(s.target)
            val = ast.BinOp(left=s.target if isinstance(s.target, ast.Name)
                            else ast.Name(id=nm), op=s.op, right=s.value)
            if not isinstance(s.target, ast.Name):
                # self.x += e: read the local self_x
                val = ast.BinOp(left=s.target, op=s.op, right=s.value)
        if unparse(s.targets[0] if isinstance(s, ast.Assign) else s.target) in \
                cx.spec.get('ignore_attrs', ()):
            return after()                      # a diagnostic counter outside the fragment
        if isinstance(val, ast.Call) and callee_of(cx, val) is not None:
            return call_bind(cx, nm, val, after)
        # file.read(n) as the whole right-hand side: reads at _pos and advances it
        if isinstance(val, ast.Call) and unparse(val.func) == 'self.file.read' and len(val.args) == 1:
            if '_pos' not in cx.types:
                raise Untranslatable('read before any seek: file position unknown')
            t, ty = expr(cx, val.args[0])
            need(ty, INT, unparse(s))
            cx.define(nm, CHUNK)
            return (f'let {lname(nm)} : Sk.Py.Chunk := Sk.Py.readAt F _pos {t}\n'
                    f'let _pos : Int := _pos + {lname(nm)}.len\n' + after())
        if nm in cx.dead and not any(isinstance(n, ast.Call) for n in ast.walk(val)):
            return after()              # only read by (dropped) log calls
        if nm in cx.spec.get('drop_assign', ()):
            return after()              # e.g. the namedtuple class of the result
        t, ty = expr(cx, val)
        if ty == NONE:
            if id(s) in cx.dead_none:
                return after()                       # dead initialisation (function level)
            prev = cx.types.get(nm)
            opt = {LLINE: OPTLLINE, OPTLLINE: OPTLLINE, INT: OPTINT, OPTINT: OPTINT}.get(prev)
            if opt is None:
                raise Untranslatable(f'{nm} = None: no type known for {nm}')
            ty = opt
        want = dict(cx.spec['params']).get(nm) if nm.startswith('self_') else None
        if want == OPTLLINE and ty == LLINE:
            t, ty = f'(some {t})', OPTLLINE
        cx.define(nm, ty)
        if ty == STR:
            return after()
        return f'let {lname(nm)} : {ty} := {t}\n' + after()
    if isinstance(s, ast.Return):
        if s.value is None:
            raise Untranslatable('bare return')
        t, ty = expr(cx, s.value)
        if cx.ret == OPTLLINE and ty == LLINE:
            t, ty = f'(some {t})', OPTLLINE
        if cx.ret in BASE_OF and ty == NONE:
            ty = cx.ret
        if cx.ret in BASE_OF and ty == BASE_OF[cx.ret] and cx.ret not in (OPTINT, OPTDT):
            t, ty = f'(some {t})', cx.ret
        if ty != cx.ret:
            raise Untranslatable(f'return of {ty} where {cx.ret} is declared: {unparse(s)}')
        st = cx.spec.get('state_out')
        if st:
            return 'Sk.Py.Res.ret (' + ', '.join([t] + [lname(v) for v in st]) + ')'
        return f'Sk.Py.Res.ret {t}'
    if isinstance(s, ast.Raise):
        if s.exc is None:
            raise Untranslatable('bare raise')
        target = s.exc.func if isinstance(s.exc, ast.Call) else s.exc
        if not isinstance(target, ast.Name) or not target.id[:1].isupper():
            # `raise self._helper(...)`: which exception that is cannot be read off the statement
            raise Untranslatable(f'raise of a computed exception: {unparse(s)}')
        return f'Sk.Py.Res.exc "{target.id}"'
    if isinstance(s, ast.Break):
        if loop is None:
            raise Untranslatable('break outside a loop')
        return loop[1]()
    if isinstance(s, ast.Continue):
        if loop is None:
            raise Untranslatable('continue outside a loop')
        return loop[0]()
    if isinstance(s, ast.With):
        names = [unparse(i.context_expr) for i in s.items]
        if all(n in cx.spec.get('locks', ()) for n in names) and \
                all(i.optional_vars is None for i in s.items):
            # holding a lock changes nothing for ONE thread of control (the bridge of such a
            # function speaks about its sequential meaning; the interleavings are C06's model)
            return block(cx, list(s.body) + rest, k, loop)
        raise Untranslatable(f'statement with {", ".join(names)}')
    if isinstance(s, ast.Try):
        # try: if c.apply_to_line(line): B   except CouldNotApplyConstraint: H
        # with c an oracle outcome: pass = returns True, fail = returns False, undec = raises
        ok = (len(s.body) == 1 and isinstance(s.body[0], ast.If) and not s.body[0].orelse and
              not s.orelse and not s.finalbody and len(s.handlers) == 1 and
              isinstance(s.handlers[0].type, ast.Name) and
              s.handlers[0].type.id == 'CouldNotApplyConstraint')
        if ok:
            t = s.body[0].test
            ok = (isinstance(t, ast.Call) and isinstance(t.func, ast.Attribute) and
                  t.func.attr == 'apply_to_line' and isinstance(t.func.value, ast.Name) and
                  cx.types.get(t.func.value.id) == COUT and len(t.args) == 1)
        if not ok:
            raise Untranslatable(f'statement {unparse(s)}')
        c = lname(s.body[0].test.func.value.id)
        saved = dict(cx.types), list(cx.order)
        t_pass = block(cx, s.body[0].body, after, loop)
        cx.types, cx.order = dict(saved[0]), list(saved[1])
        t_fail = after()
        cx.types, cx.order = dict(saved[0]), list(saved[1])
        t_undec = block(cx, s.handlers[0].body, after, loop)
        cx.types, cx.order = saved
        return (f'match {c} with\n| Sk.COut.pass =>\n{ind(t_pass)}\n| Sk.COut.fail =>\n'
                f'{ind(t_fail)}\n| Sk.COut.undec =>\n{ind(t_undec)}')
    if isinstance(s, ast.Assert):
        return f'if {prop(cx, s.test)} then\n{ind(after())}\nelse\n  Sk.Py.Res.exc "AssertionError"'
    if isinstance(s, ast.If) and (needs_flow(cx, s.test) or flow_compare(cx, s.test)):
        return cond(cx, s.test, lambda: block(cx, s.body, after, loop),
                    lambda: block(cx, s.orelse, after, loop))
    if isinstance(s, ast.If):
        opt = optional_test(cx, s.test)
        if opt is not None:
            # `if x is None` / `if not x` / `if x` on an optional: a match that REFINES the type
            # of x in the branch where it is known not to be None
            nm, none_branch_is_body, zero_is_falsy = opt
            saved_t, saved_o = dict(cx.types), list(cx.order)
            body_none, body_some = (s.body, s.orelse) if none_branch_is_body else (s.orelse, s.body)
            t_none = block(cx, body_none, after, loop)
            cx.types, cx.order = dict(saved_t), list(saved_o)
            base = BASE_OF.get(saved_t[nm], INT)
            cx.types[nm] = base
            t_some = block(cx, body_some, after, loop)
            if zero_is_falsy:
                # truthiness of an int-or-None: 0 goes with None
                cx.types, cx.order = dict(saved_t), list(saved_o)
                cx.types[nm] = base
                t_zero = block(cx, body_none, after, loop)
                t_some = f'if {lname(nm)} = 0 then\n{ind(t_zero)}\nelse\n{ind(t_some)}'
            cx.types, cx.order = saved_t, saved_o
            return (f'match {lname(nm)} with\n| none =>\n{ind(t_none)}\n'
                    f'| some {lname(nm)} =>\n{ind(t_some)}')
        cal = callee_of(cx, s.test)
        if cal is not None:
            # `if self.f(args):` with f itself translated
            tmp = ast.Name(id='_c%d' % (len(cx.order) + 1))
            return call_bind(cx, tmp.id, s.test, lambda: block(
                cx, [ast.If(test=tmp, body=s.body, orelse=s.orelse)] + rest, k, loop))
        c = prop(cx, s.test)
        straight = not has_control(s.body) and not has_control(s.orelse)
        if straight:
            before = dict(cx.types)
            a_body, a_else = assigned(s.body), assigned(s.orelse)
            names = a_body + [n for n in a_else if n not in a_body]
            mergeable = all(n in before or (n in a_body and n in a_else) for n in names)
            if mergeable:
                lines = []
                final_ty = {}
                for n in names:
                    saved_t, saved_o = dict(cx.types), list(cx.order)
                    tb = block(cx, s.body, lambda n=n: lname(n) if n in cx.types else '?')
                    ty_b = cx.types.get(n)
                    cx.types, cx.order = dict(saved_t), list(saved_o)
                    te = block(cx, s.orelse, lambda n=n: lname(n) if n in cx.types else '?')
                    ty_e = cx.types.get(n)
                    cx.types, cx.order = saved_t, saved_o
                    if ty_b is not None and ty_e is not None and ty_b != ty_e:
                        # one branch holds the value, the other the optional: lift the value
                        if BASE_OF.get(ty_b) == ty_e:
                            cx.types, cx.order = dict(saved_t), list(saved_o)
                            te = block(cx, s.orelse, lambda n=n: f'(some {lname(n)})')
                            cx.types, cx.order = saved_t, saved_o
                            ty_e = ty_b
                        elif BASE_OF.get(ty_e) == ty_b:
                            cx.types, cx.order = dict(saved_t), list(saved_o)
                            tb = block(cx, s.body, lambda n=n: f'(some {lname(n)})')
                            cx.types, cx.order = saved_t, saved_o
                            ty_b = ty_e
                    if ty_b != ty_e or ty_b is None:
                        raise Untranslatable(f'{n} has different types in the branches of '
                                             f'{unparse(s.test)}')
                    final_ty[n] = ty_b
                    if ty_b == STR:
                        continue
                    lines.append(f'let {lname(n)}_new : {ty_b} :=\n'
                                 f'  if {c} then\n{ind(tb, 4)}\n  else\n{ind(te, 4)}')
                for n in names:
                    cx.define(n, final_ty[n])
                    if final_ty[n] != STR:
                        lines.append(f'let {lname(n)} : {final_ty[n]} := {lname(n)}_new')
                return '\n'.join(lines) + '\n' + after()
        saved_t, saved_o = dict(cx.types), list(cx.order)
        tb = block(cx, s.body, after, loop)
        cx.types, cx.order = dict(saved_t), list(saved_o)
        te = block(cx, s.orelse, after, loop)
        cx.types, cx.order = saved_t, saved_o
        return f'if {c} then\n{ind(tb)}\nelse\n{ind(te)}'
    if isinstance(s, ast.For) and isinstance(s.iter, ast.Name) and \
            s.iter.id in cx.strlists and isinstance(s.target, ast.Name) and not s.orelse:
        # a loop over a LITERAL list of strings is unrolled: in iteration i the loop variable is
        # the i-th literal; `break` leaves to what follows, falling through goes to the next one
        consts = cx.strlists[s.iter.id]

        def iteration(i):
            if i == len(consts):
                return block(cx, rest, k, loop)
            cx.strconst[s.target.id] = consts[i]

            def nxt():
                return iteration(i + 1)

            def brk():
                return block(cx, rest, k, loop)
            return block(cx, list(s.body), nxt, (nxt, brk))
        return iteration(0)
    if isinstance(s, ast.For) and not (isinstance(s.iter, ast.Call) and
                                       unparse(s.iter.func) == 'range'):
        # for x in <list> / for k, v in <dict>.items(): structural recursion over the list
        it = s.iter
        if callee_of(cx, it) is not None:
            tmp = '_l%d' % (len(cx.order) + 1)
            return call_bind(cx, tmp, it, lambda: block(
                cx, [ast.For(target=s.target, iter=ast.Name(id=tmp, ctx=ast.Load()),
                             body=s.body, orelse=s.orelse)] + rest, k, loop))
        pair = False
        if isinstance(it, ast.Call) and isinstance(it.func, ast.Attribute) and \
                it.func.attr == 'items' and not it.args:
            lst, tl = expr(cx, it.func.value)
            pair = True
        elif isinstance(it, ast.Call) and isinstance(it.func, ast.Attribute) and \
                it.func.attr == 'values' and not it.args and \
                unparse(it.func.value) in cx.spec.get('consts', {}):
            lst, tl = expr(cx, it.func.value)        # the values of a dict given as their list
        else:
            lst, tl = expr(cx, it)
        if tl == OPTLISTN:
            # iterating None raises TypeError
            nm_ = it.id if isinstance(it, ast.Name) else None
            if nm_ is None:
                raise Untranslatable(f'statement {unparse(s)}')
            saved = dict(cx.types), list(cx.order)
            cx.types[nm_] = LISTN
            inner = block(cx, [s] + rest, k, loop)
            cx.types, cx.order = saved
            return (f'match {lname(nm_)} with\n| none => Sk.Py.Res.exc "TypeError"\n'
                    f'| some {lname(nm_)} =>\n{ind(inner)}')
        if pair:
            if tl != DICTNV or not (isinstance(s.target, ast.Tuple) and len(s.target.elts) == 2
                                    and all(isinstance(x, ast.Name) for x in s.target.elts)):
                raise Untranslatable(f'statement {unparse(s)}')
            names, tys, elt = [x.id for x in s.target.elts], [NAT, VAL], 'Nat × Sk.Val'
        else:
            if tl not in (LISTN, LISTC) or not isinstance(s.target, ast.Name):
                raise Untranslatable(f'statement {unparse(s)}')
            names, tys, elt = ([s.target.id], [NAT], 'Nat') if tl == LISTN else \
                ([s.target.id], [COUT], 'Sk.COut')
        cx.nloops += 1
        name = f"{cx.spec['name']}.loop{cx.nloops}"
        vars_ = cx.defined()
        sig = ' '.join(f'({lname(v)} : {cx.types[v]})' for v in vars_)
        entry_types, entry_order = dict(cx.types), list(cx.order)

        def recur():
            for v in vars_:
                if cx.types.get(v) != entry_types[v]:
                    raise Untranslatable(f'{v} changes type inside a loop')
            return f"{name} {cx.spec['ctx_args']} {' '.join(lname(v) for v in vars_)} _rest".replace('  ', ' ')

        def leave():
            saved = dict(cx.types), list(cx.order)
            out = block(cx, rest, k, loop)
            cx.types, cx.order = saved
            return out
        for n_, t_ in zip(names, tys):
            cx.define(n_, t_)
        body = block(cx, s.body, recur, (recur, leave))
        cx.types, cx.order = dict(entry_types), list(entry_order)
        done = block(cx, list(s.orelse) + rest, k, loop)
        cx.types, cx.order = dict(entry_types), list(entry_order)
        pat = f"({', '.join(lname(n_) for n_ in names)})" if pair else lname(names[0])
        cx.aux.append(
            f"def {name} {cx.spec['ctx']} {sig} : List ({elt}) → Sk.Py.Res ({lean_ret(cx)})\n"
            f"  | [] =>\n{ind(done, 4)}\n"
            f"  | {pat} :: _rest =>\n{ind(body, 4)}\n")
        return (f"{name} {cx.spec['ctx_args']} {' '.join(lname(v) for v in vars_)} {lst}"
                .replace('  ', ' '))
    if isinstance(s, ast.For):
        # for x in range(...): a while loop over a hidden counter (incremented BEFORE the body so
        # that `continue` advances it); the bound is evaluated once
        it = s.iter
        if not (isinstance(it, ast.Call) and unparse(it.func) == 'range' and not it.keywords
                and 1 <= len(it.args) <= 3 and isinstance(s.target, ast.Name)):
            raise Untranslatable(f'statement {unparse(s)}')
        step = 1
        if len(it.args) == 3:
            try:
                step = ast.literal_eval(it.args[2])
            except (ValueError, SyntaxError):
                step = None
            if not isinstance(step, int) or isinstance(step, bool) or step == 0:
                raise Untranslatable(f'range step in {unparse(s)}')
        start = it.args[0] if len(it.args) >= 2 else ast.Constant(value=0)
        stop = it.args[1] if len(it.args) >= 2 else it.args[0]
        cx.nfor = getattr(cx, 'nfor', 0) + 1
        ctr, bnd = f'_it{cx.nfor}', f'_stop{cx.nfor}'

        def nm(i, c=ast.Load):
            return ast.Name(id=i, ctx=c())
        pre = [ast.Assign(targets=[nm(ctr, ast.Store)], value=start),
               ast.Assign(targets=[nm(bnd, ast.Store)], value=stop)]
        test = ast.Compare(left=nm(ctr), ops=[ast.Lt() if step > 0 else ast.Gt()],
                           comparators=[nm(bnd)])
        body = [ast.Assign(targets=[ast.Name(id=s.target.id, ctx=ast.Store())], value=nm(ctr)),
                ast.Assign(targets=[nm(ctr, ast.Store)],
                           value=ast.BinOp(left=nm(ctr), op=ast.Add(),
                                           right=ast.Constant(value=step)))] + list(s.body)
        loop_var_defined = s.target.id in cx.types
        if not loop_var_defined:
            # the loop variable must exist at loop entry to be carried (its value is unused)
            pre.append(ast.Assign(targets=[ast.Name(id=s.target.id, ctx=ast.Store())],
                                  value=ast.Constant(value=0)))
        w = ast.While(test=test, body=body, orelse=list(s.orelse))
        return block(cx, [ast.fix_missing_locations(x) for x in pre + [w]] + rest, k, loop)
    if isinstance(s, ast.While):
        cx.nloops += 1
        name = f"{cx.spec['name']}.loop{cx.nloops}"
        if has_file_ops(s.body) and '_pos' not in cx.types:
            raise Untranslatable('loop reads the file before any seek')
        vars_ = cx.defined()
        sig = ' '.join(f'({lname(v)} : {cx.types[v]})' for v in vars_)
        entry_types, entry_order = dict(cx.types), list(cx.order)

        def recur():
            # every variable of the signature must still have its type
            args = []
            for v in vars_:
                if v == '_pos' and '_pos' not in cx.types:
                    args.append('(0 : Int)')       # position unknown after a translated call
                elif cx.types.get(v) == INT and entry_types[v] == OPTINT:
                    args.append(f'(some {lname(v)})')
                elif cx.types.get(v) != entry_types[v]:
                    raise Untranslatable(f'{v} changes type inside a loop')
                else:
                    args.append(lname(v))
            return f"{name} {cx.spec['ctx_args']} {' '.join(args)} fuel".replace('  ', ' ')

        def leave():
            # `break`: what follows the loop is inlined at the break site, where everything
            # assigned so far in the body is in scope
            saved = dict(cx.types), list(cx.order)
            out = block(cx, rest, k, loop)
            cx.types, cx.order = saved
            return out

        def exhaust():
            # the condition became false: the else clause (if any) runs, then what follows
            saved = dict(cx.types), list(cx.order)
            cx.types, cx.order = dict(entry_types), list(entry_order)
            out = block(cx, list(s.orelse) + rest, k, loop)
            cx.types, cx.order = saved
            return out

        body = block(cx, s.body, recur, (recur, leave))
        cx.types, cx.order = dict(entry_types), list(entry_order)
        c = prop(cx, s.test)
        if c == 'True':
            inner = body
        else:
            inner = f'if {c} then\n{ind(body)}\nelse\n{ind(exhaust())}'
        cx.types, cx.order = dict(entry_types), list(entry_order)
        cx.aux.append(
            f"def {name} {cx.spec['ctx']} {sig} : Nat → Sk.Py.Res ({lean_ret(cx)})\n"
            f"  | 0 => Sk.Py.Res.diverge\n"
            f"  | fuel + 1 =>\n{ind(inner, 4)}\n")
        return (f"{name} {cx.spec['ctx_args']} {' '.join(lname(v) for v in vars_)} fuel"
                .replace('  ', ' '))
    raise Untranslatable(f'statement {unparse(s)}')


def _reads(node, nm):
    return any(isinstance(n, ast.Name) and n.id == nm and isinstance(n.ctx, ast.Load)
               for n in ast.walk(node))


def _scan(stmts, nm):
    """ 'read' = nm may be read before it is written, 'written' = written on every path that
    falls through, None = neither yet """
    for s in stmts:
        if isinstance(s, (ast.Assign, ast.AugAssign)):
            if _reads(s.value, nm) or (isinstance(s, ast.AugAssign) and _reads(s.target, nm)):
                return 'read'
            tg = s.targets if isinstance(s, ast.Assign) else [s.target]
            if any(isinstance(t, ast.Name) and t.id == nm for t in tg):
                return 'written'
        elif isinstance(s, ast.If):
            if _reads(s.test, nm):
                return 'read'
            a, b = _scan(s.body, nm), _scan(s.orelse, nm)
            if 'read' in (a, b):
                return 'read'
            if a == 'written' and b == 'written':
                return 'written'
        elif isinstance(s, ast.While):
            if _reads(s.test, nm) or _scan(s.body, nm) == 'read':
                return 'read'
            # the body may not run at all: still unwritten afterwards
        elif _reads(s, nm):
            return 'read'
        elif isinstance(s, (ast.Return, ast.Raise)):
            return 'written'            # nothing after this statement on this path
    return None


def may_read_before_write(stmts, nm):
    return _scan(stmts, nm) == 'read'


def flow_compare(cx, test):
    """ a bare comparison of an optional-datetime EXPRESSION (e.g. `line.date >= since`) """
    if isinstance(test, ast.Compare) and len(test.ops) == 1 and \
            not isinstance(test.left, ast.Name):
        try:
            _, ta = expr(cx, test.left)
        except Untranslatable:
            return False
        return ta == OPTDT
    return False


def needs_flow(cx, test):
    """ does the condition mention an optional LogLine local, or compare an optional datetime
    with a value?  Then it is compiled branch by branch (cond) so that what Python knows after
    a short-circuit - the local is a real line here - is known to the translation too """
    for n in ast.walk(test):
        if isinstance(n, ast.Name) and cx.types.get(n.id) in (OPTLLINE,):
            return True
    return False


def cond(cx, test, then_k, else_k):
    if isinstance(test, ast.BoolOp):
        first, others = test.values[0], test.values[1:]
        rest_t = others[0] if len(others) == 1 else ast.BoolOp(op=test.op, values=others)
        if isinstance(test.op, ast.Or):
            return cond(cx, first, then_k, lambda: cond(cx, rest_t, then_k, else_k))
        return cond(cx, first, lambda: cond(cx, rest_t, then_k, else_k), else_k)
    if isinstance(test, ast.UnaryOp) and isinstance(test.op, ast.Not):
        return cond(cx, test.operand, else_k, then_k)
    if isinstance(test, ast.Name) and cx.types.get(test.id) == OPTLLINE:
        # truthiness of a LogLine-or-None: None is falsy, and so is a line of length 0
        # (LogLine defines __len__)
        nm = test.id
        saved = dict(cx.types), list(cx.order)
        t_none = else_k()
        cx.types, cx.order = dict(saved[0]), list(saved[1])
        cx.types[nm] = LLINE
        t_zero = else_k()
        cx.types, cx.order = dict(saved[0]), list(saved[1])
        cx.types[nm] = LLINE
        t_some = then_k()
        cx.types, cx.order = saved
        return (f'match {lname(nm)} with\n| none =>\n{ind(t_none)}\n| some {lname(nm)} =>\n'
                f'  if Sk.Py.lineLen {lname(nm)} = 0 then\n{ind(t_zero, 4)}\n  else\n{ind(t_some, 4)}')
    if isinstance(test, ast.Compare) and len(test.ops) == 1:
        op, right = test.ops[0], test.comparators[0]
        try:
            a, ta = expr(cx, test.left)
        except Untranslatable:
            a, ta = None, None
        if ta in (OPTDT, OPTINT) and isinstance(op, (ast.Is, ast.IsNot)) and \
                isinstance(right, ast.Constant) and right.value is None:
            saved = dict(cx.types), list(cx.order)
            t1 = then_k() if isinstance(op, ast.Is) else else_k()
            cx.types, cx.order = dict(saved[0]), list(saved[1])
            t2 = else_k() if isinstance(op, ast.Is) else then_k()
            cx.types, cx.order = saved
            return f'match {a} with\n| none =>\n{ind(t1)}\n| some _ =>\n{ind(t2)}'
        if ta == OPTDT:
            b, tb = expr(cx, right)
            o = {ast.Lt: '<', ast.LtE: '≤', ast.Gt: '>', ast.GtE: '≥'}.get(type(op))
            if tb == INT and o:
                # comparing None with a datetime raises TypeError
                saved = dict(cx.types), list(cx.order)
                t1 = then_k()
                cx.types, cx.order = dict(saved[0]), list(saved[1])
                t2 = else_k()
                cx.types, cx.order = saved
                return (f'match {a} with\n| none => Sk.Py.Res.exc "TypeError"\n| some _d =>\n'
                        f'  if _d {o} {b} then\n{ind(t1, 4)}\n  else\n{ind(t2, 4)}')
    saved = dict(cx.types), list(cx.order)
    c = prop(cx, test)
    t1 = then_k()
    cx.types, cx.order = dict(saved[0]), list(saved[1])
    t2 = else_k()
    cx.types, cx.order = saved
    return f'if {c} then\n{ind(t1)}\nelse\n{ind(t2)}'


def optional_test(cx, test):
    """ -> (name, the body is the None branch?, does 0 count as falsy?) for a test that asks
    whether an optional local is None """
    neg = False
    t = test
    if isinstance(t, ast.UnaryOp) and isinstance(t.op, ast.Not):
        neg, t = True, t.operand
    if isinstance(t, ast.Name) and cx.types.get(t.id) in (OPTINT, OPTDT, OPTMATCH):
        return t.id, neg, cx.types[t.id] == OPTINT
    if isinstance(t, ast.Compare) and len(t.ops) == 1 and isinstance(t.left, ast.Name) and \
            cx.types.get(t.left.id) in (OPTINT, OPTDT, OPTVAL, OPTNAT, OPTLISTN) and \
            isinstance(t.comparators[0], ast.Constant) and t.comparators[0].value is None and \
            isinstance(t.ops[0], (ast.Is, ast.IsNot)):
        is_none = isinstance(t.ops[0], ast.Is)
        return t.left.id, (is_none != neg), False
    return None


def callee_of(cx, e):
    if isinstance(e, ast.Call):
        return cx.spec.get('callees', {}).get(unparse(e.func))
    if isinstance(e, ast.Attribute):
        return cx.spec.get('prop_callees', {}).get(unparse(e))      # a property with effects
    return None


def call_bind(cx, nm, e, cont):
    """ `nm = self.f(args)` where f is itself a translated function: its outcome is bound, an
    exception or divergence of the callee is that of the caller.  The file position after the
    call is unknown: a read without a new seek is outside the fragment. """
    cal = callee_of(cx, e)
    spec2 = next(sp for sp in FUNCS if sp['name'] == cal)
    call_args = e.args if isinstance(e, ast.Call) else []
    if isinstance(e, ast.Call) and e.keywords:
        raise Untranslatable(f'keyword arguments in {unparse(e)}')
    state2 = spec2.get('state_out') or []
    want = [p for p in spec2['params'] if p[0] != '_pos' and not p[0].startswith('self_')]
    if len(call_args) != len(want):
        raise Untranslatable(f'{unparse(e)}: {len(want)} arguments expected')
    args = []
    for a, (pn, pt) in zip(call_args, want):
        t, ty = expr(cx, a)
        if ty == INT and pt in (OPTINT, OPTDT):
            t = f'(some {t})'
        elif ty == NONE and pt in (OPTINT, OPTDT, OPTLLINE):
            t = 'none'
        elif ty == VAL and pt == OPTVAL:
            t = f'(some {t})'
        elif ty != pt:
            raise Untranslatable(f'{unparse(e)}: argument {pn} is {ty}, {pt} expected')
        args.append(t)
    for v, _t in spec2['params']:
        # the callee works on the caller's object state
        if v.startswith('self_'):
            if v not in cx.types:
                raise Untranslatable(f'{unparse(e)}: the caller has no {v}')
            args.append(lname(v))
    if any(p[0] == '_pos' for p in spec2['params']):
        args.append(lname('_pos') if '_pos' in cx.types else '(0 : Int)')
        cx.types.pop('_pos', None)
        if '_pos' in cx.order:
            cx.order.remove('_pos')
    if spec2['fuel']:
        if not cx.spec['fuel']:
            raise Untranslatable(f'{unparse(e)}: the callee has loops, the caller no fuel')
        args.append('fuel')
    cx.define(nm, spec2['ret'])
    body = cont()
    pat = lname(nm) if not state2 else '(' + ', '.join([lname(nm)] + [lname(v) for v in state2]) + ')'
    return (f"match {cal} {spec2['ctx_args']} {' '.join(args)} with\n".replace('  ', ' ') +
            f"| Sk.Py.Res.ret {pat} =>\n{ind(body)}\n"
            f"| Sk.Py.Res.exc _n => Sk.Py.Res.exc _n\n"
            f"| Sk.Py.Res.diverge => Sk.Py.Res.diverge")


def has_file_ops(stmts):
    for s in stmts:
        for n in ast.walk(s):
            if isinstance(n, ast.Call) and unparse(n.func) == 'self.file.read':
                return True
    return False


def lean_ret(cx):
    return cx.spec['lean_ret']


# ---------------------------------------------------------------------------------------
# the functions that are translated, and the library idioms they use
# ---------------------------------------------------------------------------------------

def _search_state(cx, e):
    kw = kwargs(e)
    for name, a in zip(('status', 'offset'), e.args):
        kw[name] = a
    if set(kw) != {'status', 'offset'}:
        raise Untranslatable(f'SearchState form {unparse(e)}')
    st = unparse(kw['status'])
    t, ty = expr(cx, kw['offset'])
    need(ty, INT, unparse(e))
    if st == 'FindTokenStatus.FOUND':
        return f'(Sk.Tok.found {t})', RES
    if st == 'FindTokenStatus.REACHED_EOF':
        return f'(Sk.Tok.edge {t})', RES
    raise Untranslatable(f'status {st}')


def _logline(cx, e):
    kw = kwargs(e)
    if e.args or set(kw) != {'file', 'constraint', 'line_start_lf', 'line_end_lf'} or \
            unparse(kw['file']) != 'self.file' or unparse(kw['constraint']) != 'self.constraint':
        raise Untranslatable(f'LogLine form {unparse(e)}')
    a, ta = expr(cx, kw['line_start_lf'])
    b, tb = expr(cx, kw['line_end_lf'])
    need(ta, TOK, unparse(e))
    need(tb, TOK, unparse(e))
    return f'(Sk.LLine.mk {a} {b})', LLINE


def _result_pair(cx, e):
    if len(e.args) != 2 or e.keywords:
        raise Untranslatable(f'Result form {unparse(e)}')
    (a, ta), (b, tb) = expr(cx, e.args[0]), expr(cx, e.args[1])
    need(ta, BOOL, unparse(e))
    need(tb, BOOL, unparse(e))
    return f'({a}, {b})', PAIRB


def _is_line_feed(cx, e):
    if len(e.args) != 1 or e.keywords:
        raise Untranslatable(f'_is_line_feed form {unparse(e)}')
    t, ty = expr(cx, e.args[0])
    need(ty, INT, unparse(e))
    return f'(Sk.Py.isLineFeed F {t})', BOOL


def _timedelta(cx, e):
    kw = kwargs(e)
    if e.args or set(kw) - {'days', 'hours'}:
        raise Untranslatable(f'timedelta form {unparse(e)}')
    parts = []
    for key, mul in (('days', 86400), ('hours', 3600)):
        if key in kw:
            t, ty = expr(cx, kw[key])
            need(ty, INT, unparse(e))
            parts.append(f'{t} * {mul}')
    return '(' + (' + '.join(parts) or '0') + ')', INT


SEEK_CONSTS = {
    'LogFileDateSinceSeeker.SEEK_HORIZON': ('(K.H : Int)', INT),
    'self.SEEK_HORIZON': ('(K.H : Int)', INT),
    'LogFileDateSinceSeeker.MAX_SEEK_HORIZON_EXPAND': ('(K.EXP : Int)', INT),
    'self.MAX_SEEK_HORIZON_EXPAND': ('(K.EXP : Int)', INT),
    'len(self)': ('(F.len : Int)', INT),
    'FindTokenStatus.FOUND': ('Sk.Py.Status.found', STATUS),
    'FindTokenStatus.REACHED_EOF': ('Sk.Py.Status.eof', STATUS),
}

STORE_CTX = '(pre : Bool) (B : Nat) (alloc : Nat → List Nat)'
STORE_CONSTS = {'self.f_preallocator': ('pre', BOOL), 'self.prealloc_block_size': ('B', NAT)}
STORE_EFFECTS = {'self.f_preallocator(self.prealloc_block_size)':
                 ('(alloc self_nblocks)', LISTN, [('self_nblocks', '(self_nblocks + 1)')])}

FUNCS = [
    dict(name='find_token_reverse', file='constraints.py', cls='LogFileDateSinceSeeker',
         func='find_token_reverse', params=[('start_offset', INT), ('_pos', INT)], ret=RES, lean_ret='Sk.Tok',
         ctx='(K : Sk.SeekK) (F : Sk.FileV)', ctx_args='K F', consts=SEEK_CONSTS,
         lf_tokens=('self.LINE_FEED_TOKEN', 'LogFileDateSinceSeeker.LINE_FEED_TOKEN'),
         calls={'SearchState': _search_state}, fuel=True),
    dict(name='find_token', file='constraints.py', cls='LogFileDateSinceSeeker',
         func='find_token', params=[('start_offset', INT), ('_pos', INT)], ret=RES, lean_ret='Sk.Tok',
         ctx='(K : Sk.SeekK) (F : Sk.FileV)', ctx_args='K F', consts=SEEK_CONSTS,
         lf_tokens=('self.LINE_FEED_TOKEN', 'LogFileDateSinceSeeker.LINE_FEED_TOKEN'),
         calls={'SearchState': _search_state}, fuel=True),
    dict(name='num_parallel_tasks', file='search.py', cls='FileSearcher',
         func='num_parallel_tasks', params=[], ret=INT, lean_ret='Int',
         ctx='(self_max_parallel_tasks cpu_count nfiles : Int)', ctx_args='',
         consts={'os.cpu_count()': ('cpu_count', INT), 'len(self.files)': ('nfiles', INT),
                 'self.max_parallel_tasks': ('self_max_parallel_tasks', INT)},
         fuel=False),
    dict(name='try_find_line', file='constraints.py', cls='LogFileDateSinceSeeker',
         func='try_find_line',
         params=[('epicenter', INT), ('slf_off', OPTINT), ('elf_off', OPTINT), ('_pos', INT)],
         ret=LLINE, lean_ret='Sk.LLine', ctx='(K : Sk.SeekK) (F : Sk.FileV)', ctx_args='K F',
         consts=SEEK_CONSTS,
         callees={'self.find_token': 'find_token',
                  'self.find_token_reverse': 'find_token_reverse'},
         calls={'SearchState': _search_state, 'LogLine': _logline},
         ignore_attrs=('self.lines_searched',), fuel=True),
    dict(name='try_find_line_with_date', file='constraints.py', cls='LogFileDateSinceSeeker',
         func='try_find_line_with_date',
         params=[('start_offset', INT), ('line_feed_offset', OPTINT), ('forwards', BOOL),
                 ('_pos', INT)],
         ret=OPTLLINE, lean_ret='Option Sk.LLine',
         ctx='(K : Sk.SeekK) (F : Sk.FileV) (ts : Nat → Option Int)', ctx_args='K F ts',
         consts=dict(SEEK_CONSTS, **{
             'LogFileDateSinceSeeker.MAX_TRY_FIND_WITH_DATE_ATTEMPTS': ('(K.ATT : Int)', INT),
             'self.MAX_TRY_FIND_WITH_DATE_ATTEMPTS': ('(K.ATT : Int)', INT)}),
         callees={'self.try_find_line': 'try_find_line'}, ts_oracle=True, fuel=True),
    # __getitem__: the dated line that governs an offset; `found_any_date` and `line_info` are
    # threaded through and returned with the date
    dict(name='getitem', file='constraints.py', cls='LogFileDateSinceSeeker',
         func='__getitem__',
         params=[('offset', INT), ('self_found_any_date', BOOL), ('self_line_info', OPTLLINE),
                 ('_pos', INT)],
         ret=OPTDT, lean_ret='Option Int × Bool × Option Sk.LLine',
         ctx='(K : Sk.SeekK) (F : Sk.FileV) (ts : Nat → Option Int) (since : Int)',
         ctx_args='K F ts since',
         consts=dict(SEEK_CONSTS, **{
             'self.constraint.since_date': ('since', INT),
             'FindTokenStatus.FOUND': ('Sk.Py.Status.found', STATUS),
             'FindTokenStatus.REACHED_EOF': ('Sk.Py.Status.eof', STATUS)}),
         callees={'self.try_find_line_with_date': 'try_find_line_with_date'},
         calls={'self._is_line_feed': lambda cx, e: _is_line_feed(cx, e)},
         state_out=['self_found_any_date', 'self_line_info'],
         ignore_attrs=('self.lookup_count',), ts_oracle=True, fuel=True),
    dict(name='line_date_is_valid', file='constraints.py', cls='BinarySeekSearchBase',
         func='_line_date_is_valid', params=[('extracted_datetime', OPTDT)], ret=BOOL,
         lean_ret='Bool', ctx='(since : Int)', ctx_args='since',
         consts={'self.since_date': ('since', INT)}, fuel=False),
    # apply_to_line: the timestamp extracted from the line is the parameter `ts` (oracle); the two
    # counters are threaded through and returned with the outcome
    dict(name='apply_to_line', file='constraints.py', cls='SearchConstraintSearchSince',
         func='apply_to_line', params=[('self__line_pass', INT), ('self__line_fail', INT)],
         ret=BOOL, lean_ret='Bool × Int × Int', ctx='(since : Int) (ts : Option Int)',
         ctx_args='since ts',
         consts={'self._is_valid': ('true', BOOL),
                 'self.extracted_datetime(line)': ('ts', OPTDT)},
         callees={'self._line_date_is_valid': 'line_date_is_valid'},
         state_out=['self__line_pass', 'self__line_fail'], py_args=['line'], fuel=False),
    # logrotate_log_sort: the three regular expressions are the hand-written NameRx functions
    # (compared with Python's re on every generated name by C09); translated is the control flow
    # around them - the order of the filters, the default, the group handling
    dict(name='logrotate_log_sort', file='search.py', cls=None, func='logrotate_log_sort',
         params=[('fname', STRV)], ret=NAT, lean_ret='Nat', ctx='', ctx_args='',
         regexes={r'\S+\.log$': 'Sk.Py.rxLive', r'\S+\.log\.(\d+)$': 'Sk.Py.rxRot',
                  r'\S+\.log\.(\d+)\.gz?$': 'Sk.Py.rxRotGz'},
         nat=True, static=True, fuel=False),
    # ResultStoreParallel.preallocate, read sequentially (one thread of control): the block it
    # returns and what it does to the shared allocation pointer
    dict(name='preallocate', file='results_store.py', cls='ResultStoreParallel',
         func='preallocate', params=[('size', NAT), ('self_ptr', NAT)], ret=LISTN,
         lean_ret='List Nat × Nat', ctx='', ctx_args='',
         attr_vars={'self.alloc_pointer.value': 'self_ptr'}, locks=('RESULTS_STORE_LOCK',),
         state_out=['self_ptr'], nat=True, fuel=False),
    # SearchConstraintsManager.apply_single: what each of the search's constraints says about
    # the line is the oracle list `outs` (in the order of searchdef.constraints)
    dict(name='apply_single', file='search.py', cls='SearchConstraintsManager',
         func='apply_single', params=[], ret=PAIRB, lean_ret='Bool × Bool',
         ctx='(outs : List Sk.COut)', ctx_args='outs',
         consts={'searchdef.constraints': ('outs', LISTC)},
         calls={'Result': lambda cx, e: _result_pair(cx, e)},
         drop_assign=('Result',), py_args=['searchdef', 'line'], static=True, fuel=False),
    # --- the de-duplicating store (results_store.py): dicts are association lists in insertion
    # order, the pre-allocator is the oracle `alloc` (k-th block it hands out) with a counter
    dict(name='allocations', file='results_store.py', cls='ResultStoreBase', func='allocations',
         params=[('self_data', DICTNV), ('self__allocations', OPTLISTN), ('self_nblocks', NAT)],
         ret=OPTLISTN, lean_ret='Option (List Nat) × Option (List Nat) × Nat',
         ctx=STORE_CTX, ctx_args='pre B alloc', consts=STORE_CONSTS, effects=STORE_EFFECTS,
         state_out=['self__allocations', 'self_nblocks'], py_args=[], collections=True,
         nat=True, fuel=False),
    dict(name='allocate_next', file='results_store.py', cls='ResultStoreBase',
         func='_allocate_next',
         params=[('value', VAL), ('self_data', DICTNV), ('self__allocations', OPTLISTN),
                 ('self_nblocks', NAT)],
         ret=NAT, lean_ret='Nat × List (Nat × Sk.Val) × Option (List Nat) × Nat',
         ctx=STORE_CTX, ctx_args='pre B alloc', consts=STORE_CONSTS,
         prop_callees={'self.allocations': 'allocations'},
         state_out=['self_data', 'self__allocations', 'self_nblocks'], collections=True,
         nat=True, fuel=False),
    dict(name='add_to_store', file='results_store.py', cls='ResultStoreBase',
         func='_add_to_store',
         params=[('value', OPTVAL), ('store', DICTVN), ('idx', OPTNAT), ('self_data', DICTNV),
                 ('self__allocations', OPTLISTN), ('self_nblocks', NAT)],
         ret=OPTNAT,
         lean_ret='Option Nat × List (Sk.Val × Nat) × List (Nat × Sk.Val) × Option (List Nat) × Nat',
         ctx=STORE_CTX, ctx_args='pre B alloc', consts=STORE_CONSTS,
         callees={'self._allocate_next': 'allocate_next'},
         state_out=['store', 'self_data', 'self__allocations', 'self_nblocks'],
         collections=True, nat=True, fuel=False),
    # the part of SearchConstraintSearchSince.__init__ that fixes the window, followed by
    # since_date: what is subtracted from current_date, in seconds
    dict(name='since_window', file='constraints.py', cls='SearchConstraintSearchSince',
         func='__init__', params=[('days', INT), ('hours', INT)], ret=INT, lean_ret='Int',
         ctx='', ctx_args='', only_targets=('self.days', 'self.hours'),
         then=dict(cls='SearchConstraintSearchSince', func='since_date',
                   expect='self.current_date - ', drop_guard='not self.current_date'),
         calls={'timedelta': _timedelta}, fuel=False),
]


def find_func(tree, cls, func):
    if cls is None:
        for n in tree.body:
            if isinstance(n, ast.FunctionDef) and n.name == func:
                return n
        raise Untranslatable(f'{func} not found')
    for n in tree.body:
        if isinstance(n, ast.ClassDef) and n.name == cls:
            for m in n.body:
                if isinstance(m, ast.FunctionDef) and m.name == func:
                    return m
    raise Untranslatable(f'{cls}.{func} not found')


def translate_one(repo, spec):
    with open(os.path.join(repo, 'searchkit', spec['file'])) as f:
        tree = ast.parse(f.read())
    fn = find_func(tree, spec['cls'], spec['func'])
    cx = Ctx(spec)
    have = [a.arg for a in fn.args.args + fn.args.kwonlyargs]
    for pn, _ in spec['params']:
        if pn != '_pos' and not pn.startswith('self_') and pn not in have:
            raise Untranslatable(f"{spec['func']} has no parameter {pn} (it has {have})")
    if not spec.get('only_targets'):
        named = spec.get('py_args') or [pn for pn, _ in spec['params']
                                         if pn != '_pos' and not pn.startswith('self_')]
        got = have if spec.get('static') else have[1:]
        if got != named:
            raise Untranslatable(f"{spec['func']} takes {got}, the bridge expects {named}")
    body = list(fn.body)
    if spec.get('only_targets'):
        # keep the statements that assign one of the named attributes (whole if-statements
        # included), in order; everything else in the constructor is outside the fragment
        keep = []
        for s in body:
            tg = set()
            for n in ast.walk(s):
                if isinstance(n, ast.Assign):
                    tg.update(unparse(t) for t in n.targets)
                elif isinstance(n, ast.AugAssign):
                    tg.add(unparse(n.target))
            if tg & set(spec['only_targets']):
                if not tg <= set(spec['only_targets']):
                    raise Untranslatable(f'{unparse(s)} assigns more than the window attributes')
                keep.append(s)
        body = keep
        th = spec['then']
        fn2 = find_func(tree, th['cls'], th['func'])
        b2 = [s for s in fn2.body
              if not (isinstance(s, ast.Expr) and isinstance(s.value, ast.Constant))]
        # `if not self.current_date: return None` guards an attribute outside the fragment
        if b2 and isinstance(b2[0], ast.If) and unparse(b2[0].test) == th['drop_guard']:
            b2 = b2[1:]
        if len(b2) != 1 or not isinstance(b2[0], ast.Return) or \
                not unparse(b2[0].value).startswith(th['expect']) or \
                not isinstance(b2[0].value, ast.BinOp) or not isinstance(b2[0].value.op, ast.Sub):
            raise Untranslatable(f"{th['func']} is not `return self.current_date - <window>`")
        body = body + [ast.Return(value=b2[0].value.right)]
    declared = {pn for pn, _ in spec['params'] if pn.startswith('self_')}

    class _SelfAttrs(ast.NodeTransformer):
        def visit_Attribute(self, node):
            self.generic_visit(node)
            if isinstance(node.value, ast.Name) and node.value.id == 'self' and \
                    'self_' + node.attr in declared:
                return ast.copy_location(ast.Name(id='self_' + node.attr, ctx=node.ctx), node)
            return node
    amap = spec.get('attr_vars', {})

    class _AttrVars(ast.NodeTransformer):
        def visit_Attribute(self, node):
            if unparse(node) in amap:
                return ast.copy_location(ast.Name(id=amap[unparse(node)], ctx=node.ctx), node)
            self.generic_visit(node)
            return node
    if amap:
        body = [ast.fix_missing_locations(_AttrVars().visit(b)) for b in body]
    if spec.get('collections'):
        body = [ast.fix_missing_locations(_SelfAttrs().visit(b)) for b in body]
    drop = cx.spec.get('drop_calls', ('log.debug', 'log.info', 'log.warning'))
    loaded, stored = set(), set()

    def walk(node, in_log=False):
        if isinstance(node, ast.Expr) and isinstance(node.value, ast.Call) and \
                unparse(node.value.func) in drop:
            in_log = True
        if isinstance(node, ast.Name):
            if isinstance(node.ctx, ast.Load) and not in_log:
                loaded.add(node.id)
            elif isinstance(node.ctx, ast.Store):
                stored.add(node.id)
        for ch in ast.iter_child_nodes(node):
            walk(ch, in_log)
    for st_ in body:
        walk(st_)
    cx.dead = stored - loaded
    # `x = None` at the top level of the function that is overwritten before it is ever read
    for i, st_ in enumerate(body):
        if isinstance(st_, ast.Assign) and isinstance(st_.value, ast.Constant) and \
                st_.value.value is None and len(st_.targets) == 1 and \
                isinstance(st_.targets[0], ast.Name) and \
                not may_read_before_write(body[i + 1:], st_.targets[0].id):
            cx.dead_none.add(id(st_))
    fuel = ' (fuel : Nat)' if spec['fuel'] else ''

    def fallthrough():
        raise Untranslatable('function may fall off its end (returns None)')

    text = block(cx, body, fallthrough)
    params = ' '.join(f'({lname(p)} : {t})' for p, t in spec['params'])
    head = (f"def {spec['name']} {spec['ctx']} {params}{fuel} : Sk.Py.Res ({spec['lean_ret']}) :=\n"
            .replace('  ', ' '))
    return ''.join(a + '\n' for a in cx.aux) + head + ind(text) + '\n'


HEADER = """\
/-
  GENERATED by /verif/harness/vh/pytolean.py from the source of searchkit - do not edit.
  Shallow Lean translation of: {names}.
  `SkModel/Gen/Bridge.lean` proves each of these equal to the hand-written model function.
-/
import SkModel.Gen.PyPrim

namespace Sk.Gen

"""


def translate(repo):
    """ -> (lean text, {name: error}) ; a function that cannot be translated is left out
    and named in the second component """
    parts, errors = [], {}
    for spec in FUNCS:
        try:
            parts.append((spec['name'], translate_one(repo, spec)))
        except Untranslatable as e:
            errors[spec['name']] = str(e)
        except (OSError, SyntaxError, KeyError, AttributeError) as e:
            errors[spec['name']] = f'{type(e).__name__}: {e}'
    text = HEADER.format(names=', '.join(n for n, _ in parts)) + \
        '\n'.join(t for _, t in parts) + '\nend Sk.Gen\n'
    return text, errors


if __name__ == '__main__':
    import sys
    t, errs = translate(sys.argv[1] if len(sys.argv) > 1 else '/repo')
    sys.stdout.write(t)
    for n, e in errs.items():
        sys.stderr.write(f'UNTRANSLATABLE {n}: {e}\n')
