"""
Shared machinery of the checks that compare a single-file `FileSearcher.run()` with
the Lean model of `SearchTask` (C01, C03, C07, C13, C17 single, …).
"""
from vh import scenario as S


def eval_scenarios(rng, count, extra):
    """
    shard worker: generate `count` scenarios with extra['gen'], run the real code,
    build the Lean case.  Returns list of dict(scn, impl, case, vals).
    """
    gen = extra['gen']
    tier = extra.get('tier', 'quick')
    fixed = extra.get('fixed')
    out = []
    todo = fixed if fixed is not None else [None] * count
    for item in todo:
        scn = item if item is not None else gen(rng, tier)
        out.append(eval_one(scn))
    return out


def eval_one(scn):
    impl = S.run_impl(scn)
    case, intern = S.task_case(scn, 0, start=scn.get('_start', 0))
    return {'scn': scn, 'impl': impl, 'case': case, 'vals': intern.val}


def model_view(item, mobs):
    """ canonical model observation in the shape of the impl observation """
    intern = S.Interner()
    intern.val = item['vals']
    m = mobs['model']
    if 'err' in m:
        return {'err': m['err']}
    res = S.canon_model_results(m['results'], intern)
    return {'results': res, 'lines': m['lines'], 'nres': m['nres']}


def impl_results(item):
    """ results the real code filed for the (single) file of the scenario """
    impl = item['impl']
    if 'err' in impl:
        return None
    name = item['scn']['files'][0]['name']
    return impl['paths'].get(name, [])


def strip_src(results):
    return [{k: v for k, v in r.items() if k != 'src'} for r in results]


def compare_results(impl_rs, model_rs):
    """ per tag in order; across tags as multisets (the property fixes no order) """
    a = S.by_tag(impl_rs)
    b = S.by_tag(strip_src(model_rs))
    if a == b:
        return None
    for tag in sorted(set(a) | set(b)):
        if a.get(tag) != b.get(tag):
            la, lb = a.get(tag, []), b.get(tag, [])
            for i in range(max(len(la), len(lb))):
                x = la[i] if i < len(la) else None
                y = lb[i] if i < len(lb) else None
                if x != y:
                    return f"tag {tag!r} result #{i}: impl={x} model={y}"
    return "results differ"


def spec_simple_view(item, mobs):
    """ {def index: [(ln, [values])]} from the Lean spec layer """
    intern = S.Interner()
    intern.val = item['vals']
    return {int(k): [(ln, [intern.back(v) for v in vs]) for ln, vs in lst]
            for k, lst in mobs.get('specSimple', {}).items()}


def unique_tag_simple_defs(scn):
    """ registered simple defs whose tag identifies them among everything on the file """
    tags = {}
    regd = {r[0] for r in scn['regs']}
    for i in regd:
        d = scn['defs'][i]
        if d['type'] == 'simple':
            tags.setdefault(d.get('tag'), []).append(i)
        else:
            for sfx in ('-start', '-body', '-end'):
                tags.setdefault(d['tag'] + sfx, []).append(('seq', i))
    return {t: v[0] for t, v in tags.items()
            if len(v) == 1 and isinstance(v[0], int) and t is not None}


def shared_tag_simple_defs(scn):
    """ tags carried by SEVERAL registered simple searches (and by nothing else): tag -> defs """
    tags = {}
    regd = {r[0] for r in scn['regs']}
    for i in sorted(regd):
        d = scn['defs'][i]
        if d['type'] == 'simple':
            tags.setdefault(d.get('tag'), []).append(i)
        else:
            for sfx in ('-start', '-body', '-end'):
                tags.setdefault(d['tag'] + sfx, []).append(('seq', i))
    return {t: v for t, v in tags.items()
            if len(v) > 1 and all(isinstance(x, int) for x in v) and t is not None}


def spec_seq_view(item, mobs):
    """ {def index: [[(role, ln, [values])...] per section]} from the Lean spec layer """
    intern = S.Interner()
    intern.val = item['vals']
    return {int(k): [[[role, ln, [intern.back(v) for v in vs]] for role, ln, vs in sec]
                     for sec in secs]
            for k, secs in mobs.get('specSeq', {}).items()}


def unique_tag_seq_defs(scn):
    """ registered sequence defs whose tag is used by no other sequence def """
    tags = {}
    for i in {r[0] for r in scn['regs']}:
        d = scn['defs'][i]
        if d['type'] == 'seq':
            tags.setdefault(d['tag'], []).append(i)
    return {t: v[0] for t, v in tags.items() if len(v) == 1}


# --------------------------------------------------------------------------
# two-phase model evaluation: seeker model (position) then task model
# --------------------------------------------------------------------------

def full_model(scns, drv, fidx=0):
    """
    For each single-file scenario: the position the file-level constraint leaves (seeker
    model; 0 when no constraint applies) and the task model's observation from there.
    Returns list of dict(pos, seek (driver output or None), mobs, vals).
    """
    from vh import seekcheck as K
    consts = K.live_constants()
    seek_idx, seek_cases = [], []
    for i, scn in enumerate(scns):
        if S.global_applies(scn, fidx) and len(S.file_bytes(scn['files'][fidx])) > 0:
            content = S.file_bytes(scn['files'][fidx])
            cons = scn['constraints'][scn['global']]
            seek_idx.append(i)
            seek_cases.append(K.seek_case(content, cons, [['apply']], consts))
    seek_out = dict(zip(seek_idx, drv.run(seek_cases)))
    out, tcases = [], []
    for i, scn in enumerate(scns):
        so = seek_out.get(i)
        pos, err = 0, None
        if so is not None:
            ap = so['model']['outs'][0]['apply']
            if 'err' in ap:
                err = ap['err']
            else:
                pos = ap['pos']
        case, intern = S.task_case(scn, fidx, start=pos)
        tcases.append(case)
        out.append({'pos': pos, 'seek': so, 'seek_err': err, 'vals': intern.val,
                    'case': case})
    for o, mo in zip(out, drv.run(tcases)):
        o['mobs'] = mo
    return out


# --------------------------------------------------------------------------
# whole runs (any number of files): seeker model per file, then the `run` model
# --------------------------------------------------------------------------

def catalog_order(scn):
    """ file indices in catalog order (first registration) and registrations per file """
    order, nregs = [], {}
    for r in scn['regs']:
        targets = [r[1]] if isinstance(r[1], int) else scn.get('_expanded', {}).get(r[1], [])
        for f in targets:
            if f not in order:
                order.append(f)
            nregs[f] = nregs.get(f, 0) + 1
    return order, nregs


def run_models(scns, drv, persists=None):
    """
    Model observation of `FileSearcher.run()` for each scenario:
    dict(order, paths {file name: canonical results}, stats | errs, vals).
    """
    from vh import seekcheck as K
    consts = K.live_constants()
    seek_keys, seek_cases = [], []
    for i, scn in enumerate(scns):
        order, _ = catalog_order(scn)
        for f in order:
            content = S.file_bytes(scn['files'][f])
            if S.global_applies(scn, f) and len(S.file_disk_bytes(scn['files'][f])) > 0:
                cons = scn['constraints'][scn['global']]
                seek_keys.append((i, f))
                seek_cases.append(K.seek_case(content, cons, [['apply']], consts))
    seek_out = dict(zip(seek_keys, drv.run(seek_cases)))
    cases, interns = [], []
    for i, scn in enumerate(scns):
        order, nregs = catalog_order(scn)
        intern = S.Interner()
        jobs = []
        for f in order:
            pos = 0
            so = seek_out.get((i, f))
            if so is not None:
                ap = so['model']['outs'][0]['apply']
                pos = ap.get('pos', 0)
            tcase, _ = S.task_case(scn, f, start=pos, intern=intern)
            jobs.append({'task': tcase, 'nregs': nregs[f],
                         'empty': len(S.file_disk_bytes(scn['files'][f])) == 0})
        persist = (persists[i] if persists else None) or []
        cases.append({'kind': 'run', 'K': S.scenario_K(scn), 'jobs': jobs, 'persist': persist,
                      '_pos': {f: (seek_out[(i, f)]['model']['outs'][0]['apply'].get('pos', 0)
                                   if (i, f) in seek_out else 0) for f in order}})
        interns.append(intern)
    out = []
    for scn, intern, case, mo in zip(scns, interns, cases, drv.run(cases)):
        m = mo['model']
        order, _ = catalog_order(scn)
        o = {'order': order, 'persistOk': m['persistOk'], 'vals': intern.val,
             'tcases': {scn['files'][f]['name']: jb['task'] for f, jb in zip(order, case['jobs'])},
             'pos': {scn['files'][f]['name']: case['_pos'][f] for f in order}}
        if 'errs' in m:
            o['errs'] = m['errs']
        else:
            o['paths'] = {scn['files'][f]['name']: S.canon_model_results(rs, intern)
                          for f, rs in zip(order, m['paths'])}
            o['stats'] = m['stats']
        out.append(o)
    return out


def compare_run(scn, impl, mrun, check_stats=True):
    """ None if the real run and the model agree, else a description """
    if 'err' in impl or 'errs' in mrun:
        ie = impl.get('err')
        if 'errs' in mrun:
            return None if ie in mrun['errs'] else \
                f"outcome: impl={ie or 'returned'} model raises one of {mrun['errs']}"
        return f"outcome: impl raised {ie}, model returns"
    names = {f['name'] for f in scn['files']}
    for name in sorted(names | set(impl['paths'])):
        diff = compare_results(impl['paths'].get(name, []), mrun['paths'].get(name, []))
        if diff:
            return f"path {name}: {diff}"
    if check_stats:
        ist, mst = impl['stats'], mrun['stats']
        for k in ('lines', 'results', 'searches', 'searches_by_job', 'jobs_completed',
                  'total_jobs'):
            if ist[k] != mst[k]:
                return f"stats[{k}]: impl={ist[k]} model={mst[k]}"
        if impl['len'] != mst['results']:
            return f"len(results)={impl['len']} model results={mst['results']}"
    return None


def py_spec_simple(tcase, vals):
    """
    The C01 prescription computed directly from the oracle tables of a task case, for
    every unconstrained simple definition: {def id: [(ln, [values])]}.
    """
    intern = S.Interner()
    intern.val = vals
    out = {}
    n = tcase['n']
    for d in tcase['defs']:
        if d['type'] != 'simple' or d['cons'] or d['id'] in out:
            continue
        sd = d['sd']
        rows = []
        for i in range(n):
            if sd['hint'] is not None and not sd['hint'][i]:
                continue
            m = next((p[i] for p in sd['pats'] if p[i] is not None), None)
            if m is None:
                continue
            if not sd['store']:
                vs = []
            elif not m['g']:
                vs = [m['g0']]
            else:
                vs = m['g']
            rows.append((i + 1, [intern.back(v) for v in vs]))
        out[d['id']] = rows
    return out


def judge_run(rep, scn, impl, mrun, check_stats=True, what=''):
    """
    Whole-run verdict: (1) the C01 prescription directly, for every unconstrained simple
    search identified by a unique tag on files searched from offset 0; (2) impl vs model.
    Returns True if a failure was recorded.
    """
    if 'err' not in impl and 'errs' not in mrun:
        uniq = unique_tag_simple_defs(scn)
        for name, tcase in mrun['tcases'].items():
            if mrun['pos'].get(name, 0) != 0:
                continue
            spec = py_spec_simple(tcase, mrun['vals'])
            by_tag = {}
            for r in impl['paths'].get(name, []):
                by_tag.setdefault(r['tag'], []).append((r['ln'], r['iter']))
            on_file = {d['id'] for d in tcase['defs']}
            for tag, di in uniq.items():
                if di not in spec or di not in on_file:
                    continue
                rep.count('spec_compared')
                if by_tag.get(tag, []) != spec[di]:
                    rep.fail('failing-input', scn,
                             f"{what}path {name}, search tagged {tag!r}: reported "
                             f"{by_tag.get(tag, [])[:5]} (n={len(by_tag.get(tag, []))}); the "
                             f"lines it matches give {spec[di][:5]} (n={len(spec[di])})",
                             impl=by_tag.get(tag, [])[:50], spec=spec[di][:50])
                    return True
    diff = compare_run(scn, impl, mrun, check_stats=check_stats)
    if diff:
        kind = 'failing-input' if ('err' in impl and 'errs' not in mrun) else \
            'correspondence-broken'
        rep.fail(kind, scn, what + diff, impl=impl if 'err' in impl else None,
                 model=mrun.get('errs'))
        return True
    return False
