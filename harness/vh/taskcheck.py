"""
Shared machinery of the checks that compare a single-file `FileSearcher.run()` with
the Lean model of `SearchTask` (C01, C03, C07, C13, C17 single, …).
"""
from vh import scenario as S


def eval_scenarios(rng, count, extra):
    """
    shard worker: generate `count` scenarios with extra['gen'], run the real code,
    build the Lean case.  Returns list of dict(scn, impl, case, vals).
    """
    gen = extra['gen']
    tier = extra.get('tier', 'quick')
    fixed = extra.get('fixed')
    out = []
    todo = fixed if fixed is not None else [None] * count
    for item in todo:
        scn = item if item is not None else gen(rng, tier)
        out.append(eval_one(scn))
    return out


def eval_one(scn):
    impl = S.run_impl(scn)
    case, intern = S.task_case(scn, 0, start=scn.get('_start', 0))
    return {'scn': scn, 'impl': impl, 'case': case, 'vals': intern.val}


def model_view(item, mobs):
    """ canonical model observation in the shape of the impl observation """
    intern = S.Interner()
    intern.val = item['vals']
    m = mobs['model']
    if 'err' in m:
        return {'err': m['err']}
    res = S.canon_model_results(m['results'], intern)
    return {'results': res, 'lines': m['lines'], 'nres': m['nres']}


def impl_results(item):
    """ results the real code filed for the (single) file of the scenario """
    impl = item['impl']
    if 'err' in impl:
        return None
    name = item['scn']['files'][0]['name']
    return impl['paths'].get(name, [])


def strip_src(results):
    return [{k: v for k, v in r.items() if k != 'src'} for r in results]


def compare_results(impl_rs, model_rs):
    """ per tag in order; across tags as multisets (the property fixes no order) """
    a = S.by_tag(impl_rs)
    b = S.by_tag(strip_src(model_rs))
    if a == b:
        return None
    for tag in sorted(set(a) | set(b)):
        if a.get(tag) != b.get(tag):
            la, lb = a.get(tag, []), b.get(tag, [])
            for i in range(max(len(la), len(lb))):
                x = la[i] if i < len(la) else None
                y = lb[i] if i < len(lb) else None
                if x != y:
                    return f"tag {tag!r} result #{i}: impl={x} model={y}"
    return "results differ"


def spec_simple_view(item, mobs):
    """ {def index: [(ln, [values])]} from the Lean spec layer """
    intern = S.Interner()
    intern.val = item['vals']
    return {int(k): [(ln, [intern.back(v) for v in vs]) for ln, vs in lst]
            for k, lst in mobs.get('specSimple', {}).items()}


def unique_tag_simple_defs(scn):
    """ registered simple defs whose tag identifies them among everything on the file """
    tags = {}
    regd = {r[0] for r in scn['regs']}
    for i in regd:
        d = scn['defs'][i]
        if d['type'] == 'simple':
            tags.setdefault(d.get('tag'), []).append(i)
        else:
            for sfx in ('-start', '-body', '-end'):
                tags.setdefault(d['tag'] + sfx, []).append(('seq', i))
    return {t: v[0] for t, v in tags.items()
            if len(v) == 1 and isinstance(v[0], int) and t is not None}


def spec_seq_view(item, mobs):
    """ {def index: [[(role, ln, [values])...] per section]} from the Lean spec layer """
    intern = S.Interner()
    intern.val = item['vals']
    return {int(k): [[[role, ln, [intern.back(v) for v in vs]] for role, ln, vs in sec]
                     for sec in secs]
            for k, secs in mobs.get('specSeq', {}).items()}


def unique_tag_seq_defs(scn):
    """ registered sequence defs whose tag is used by no other sequence def """
    tags = {}
    for i in {r[0] for r in scn['regs']}:
        d = scn['defs'][i]
        if d['type'] == 'seq':
            tags.setdefault(d['tag'], []).append(i)
    return {t: v[0] for t, v in tags.items() if len(v) == 1}


# --------------------------------------------------------------------------
# two-phase model evaluation: seeker model (position) then task model
# --------------------------------------------------------------------------

def full_model(scns, drv, fidx=0):
    """
    For each single-file scenario: the position the file-level constraint leaves (seeker
    model; 0 when no constraint applies) and the task model's observation from there.
    Returns list of dict(pos, seek (driver output or None), mobs, vals).
    """
    from vh import seekcheck as K
    consts = K.live_constants()
    seek_idx, seek_cases = [], []
    for i, scn in enumerate(scns):
        if S.global_applies(scn, fidx) and len(S.file_bytes(scn['files'][fidx])) > 0:
            content = S.file_bytes(scn['files'][fidx])
            cons = scn['constraints'][scn['global']]
            seek_idx.append(i)
            seek_cases.append(K.seek_case(content, cons, [['apply']], consts))
    seek_out = dict(zip(seek_idx, drv.run(seek_cases)))
    out, tcases = [], []
    for i, scn in enumerate(scns):
        so = seek_out.get(i)
        pos, err = 0, None
        if so is not None:
            ap = so['model']['outs'][0]['apply']
            if 'err' in ap:
                err = ap['err']
            else:
                pos = ap['pos']
        case, intern = S.task_case(scn, fidx, start=pos)
        tcases.append(case)
        out.append({'pos': pos, 'seek': so, 'seek_err': err, 'vals': intern.val,
                    'case': case})
    for o, mo in zip(out, drv.run(tcases)):
        o['mobs'] = mo
    return out
