"""
Core of the correspondence harness: Lean build + proof audit, the line-protocol
driver, sharded execution, verdict protocol, evidence/replay files.

Nothing in this module imports searchkit: the parent process must stay free of it
so that every shard worker (forked) imports its own copy from /repo and gets its
own module-level multiprocessing locks.
"""
import concurrent.futures
import hashlib
import json
import multiprocessing
import os
import random
import re
import subprocess
import sys
import time
import traceback

HERE = os.path.dirname(os.path.abspath(__file__))
VERIF = os.path.dirname(os.path.dirname(HERE))
LEAN_DIR = os.path.join(VERIF, 'lean')
DRIVER = os.path.join(LEAN_DIR, '.lake', 'build', 'bin', 'skdriver')
EVIDENCE_DIR = os.path.join(VERIF, 'evidence')
REPLAY_DIR = os.path.join(VERIF, 'replay')
CORPUS_DIR = os.path.join(VERIF, 'corpus')
REPO = os.environ.get('SEARCHKIT_REPO', '/repo')
ALLOWED_AXIOMS = {'propext', 'Classical.choice', 'Quot.sound'}
NCPU = min(16, os.cpu_count() or 1)

TRUSTED_BASE = [
    "Lean 4.33.0 kernel (thorough tier: leanchecker re-check of the compiled modules)",
    "axioms propext, Classical.choice, Quot.sound only (audited with #print axioms every run)",
    "Lean compiler/runtime for the native model driver used by the correspondence check",
    "the hand-written model <-> /repo tie is the correspondence check of this run "
    "(harness generators, canonicalisation and Python-computed oracle tables are unverified)",
    "translator tie (C04, C06, C07, C09, C11, C13, C15, C16, C18): harness/vh/pytolean.py (Python fragment -> Lean) and "
    "SkModel/Gen/PyPrim.lean (meaning of file seek/read, bytes.find/rfind, Python integer "
    "operators) are trusted for the bridge theorems; log calls are dropped by the translator "
    "(side effects of evaluating a log argument are outside the fragment)",
]


class Infra(Exception):
    """ Trouble in the machinery itself: exit status 2, never a VIOLATION. """


class CaseTimeout(BaseException):
    """ The code under test did not come back within the per-case limit.
    BaseException so that searchkit's own `except Exception` cannot swallow it. """


import contextlib  # noqa: E402
import signal  # noqa: E402


IDLE_FRAC = 0.05        # of one core: below this, over a whole window, nothing is computing
HARD_FACTOR = int(os.environ.get('VERIF_WALL_CAP_FACTOR', '10'))
CPU_FACTOR = int(os.environ.get('VERIF_CPU_CAP_FACTOR', '6'))
WATCHDOG = {'extended': 0, 'last_extensions': 0, 'last_verdict': None}


def _tree_cpu(since, own0, seen):
    """ CPU seconds (user + system) used since `since` by this process and by every descendant
    that was started after it; monotone (a descendant that has gone keeps its last reading) """
    t = os.times()
    total = t.user + t.system - own0
    try:
        import psutil  # pylint: disable=import-outside-toplevel
        for ch in psutil.Process().children(recursive=True):
            try:
                born = ch.create_time()
                if born < since - 1:
                    continue
                ct = ch.cpu_times()
                v = ct.user + ct.system
                if v > seen.get((ch.pid, born), 0):
                    seen[(ch.pid, born)] = v
            except psutil.Error:
                pass
    except ImportError:
        pass
    return total + sum(seen.values())


@contextlib.contextmanager
def time_limit(seconds, progress=None):
    """ SIGALRM based watchdog around one call into the code under test.

    The wall-clock limit alone is NOT a verdict: how long a run takes depends on the machine
    and on what else it is doing (a big multi-process hand-over that takes 9 - 17 s here took
    more than 60 s on a freshly restored sandbox).  `CaseTimeout` is raised when the limit has
    passed AND the run shows no sign of life over a whole look-back window (a quarter of the
    limit): the optional `progress()` token (e.g. number of batches handed over) is unchanged
    and the process tree has used less than IDLE_FRAC of one core (a searchkit run that waits
    for ever polls: measured 0.2 - 1 %; one that works uses 100 % and more).  A run that is
    alive gets another window, and another, until it comes back or reaches one of two
    backstops: CPU_FACTOR x limit CPU-seconds consumed by the tree (a busy loop; CPU time does
    not depend on the load of the machine) or HARD_FACTOR x limit of wall-clock time.  A run
    that comes back in time never sees a signal before `limit - window`. """
    seconds = int(seconds)
    window = max(2, seconds // 4)
    t0, wall0 = time.monotonic(), time.time()
    ot = os.times()
    own0 = ot.user + ot.system
    seen = {}
    st = {'last': None, 'ext': 0, 'stage': 0}
    WATCHDOG['last_extensions'] = 0
    WATCHDOG['last_verdict'] = None

    def token():
        if progress is None:
            return None
        try:
            return progress()
        except Exception:  # pylint: disable=broad-except
            return None

    def give_up():
        # the verdict is final; what follows only gets control back.  Worker / manager
        # processes first: the executor's and the manager's context exits, which the exception
        # passes through, wait for them
        st['stage'] = 1
        kill_children()
        signal.alarm(10)
        raise CaseTimeout()

    def handler(_sig, _frm):
        if st['stage']:
            # still inside the block 10 s after CaseTimeout was raised: a `finally` of the code
            # under test joins a helper thread that waits for a module-level lock which a
            # killed worker held.  First free such locks, then raise again.
            st['stage'] += 1
            signal.alarm(10)
            if st['stage'] == 2:
                release_abandoned_locks()
                return
            raise CaseTimeout()
        now = time.monotonic() - t0
        cpu, tok = _tree_cpu(wall0, own0, seen), token()
        last, st['last'] = st['last'], (cpu, tok, now)
        if cpu >= CPU_FACTOR * seconds:
            WATCHDOG['last_verdict'] = f'busy: {cpu:.0f} CPU-seconds used'
            give_up()
        if last is None or now < seconds - 0.5:
            signal.alarm(window)            # first look: one window before the limit
            return
        alive = tok != last[1] or cpu - last[0] >= IDLE_FRAC * (now - last[2])
        if alive and now < HARD_FACTOR * seconds:
            st['ext'] += 1
            WATCHDOG['extended'] += 1
            WATCHDOG['last_extensions'] = st['ext']
            signal.alarm(window)
            return
        WATCHDOG['last_verdict'] = (f'still working after {now:.0f} s' if alive else
                                    f'no sign of life for {now - last[2]:.0f} s')
        give_up()
    old = signal.signal(signal.SIGALRM, handler)
    signal.alarm(max(1, seconds - window))
    try:
        yield
    finally:
        signal.alarm(0)
        signal.signal(signal.SIGALRM, old)


def release_abandoned_locks():
    """ after the children have been killed: module-level multiprocessing locks of the code
    under test that are still held are released (their holder is gone, or is about to be
    unwound) - what searchkit itself does when it finds its worker pool broken """
    import multiprocessing.synchronize as ms  # pylint: disable=import-outside-toplevel
    for name, mod in list(sys.modules.items()):
        if not name.startswith('searchkit') or mod is None:
            continue
        for v in list(vars(mod).values()):
            if isinstance(v, ms.Lock):
                try:
                    if not v.acquire(False):
                        pass
                    v.release()
                except (ValueError, AssertionError, OSError):
                    pass


def kill_children():
    """ after a hang: remove whatever worker / manager processes the run left behind """
    try:
        import psutil  # pylint: disable=import-outside-toplevel
        for ch in psutil.Process().children(recursive=True):
            try:
                ch.kill()
            except psutil.Error:
                pass
    except ImportError:
        pass


SINGLE_LIMIT = int(os.environ.get('VERIF_CASE_LIMIT', '30'))
MULTI_LIMIT = int(os.environ.get('VERIF_MP_CASE_LIMIT', '60'))


_COV = None


def cov_start():
    """ analysis aid (tools/coverage_quick.sh), not part of any check: with VERIF_COVERAGE=<dir>
    every process that imports searchkit records which lines / branches of it run """
    global _COV  # pylint: disable=global-statement
    cdir = os.environ.get('VERIF_COVERAGE')
    if not cdir or _COV is not None:
        return
    import coverage  # pylint: disable=import-outside-toplevel
    _COV = coverage.Coverage(config_file=os.path.join(cdir, 'rc'))
    _COV.start()
    import atexit  # pylint: disable=import-outside-toplevel
    atexit.register(cov_save)


def cov_save():
    if _COV is not None:
        _COV.stop()
        _COV.save()
        _COV.start()


_DEBUG_LOGGING_ACTIVE = []      # non-empty while a debug_logging() block is open


def import_searchkit():
    """ Import searchkit from REPO (never a copy) and return the package. """
    sys.dont_write_bytecode = True
    cov_start()
    if REPO not in sys.path:
        sys.path.insert(0, REPO)
    import searchkit  # pylint: disable=import-outside-toplevel
    if not os.path.realpath(searchkit.__file__).startswith(
            os.path.realpath(REPO) + os.sep):
        raise Infra(f"searchkit imported from {searchkit.__file__}, "
                    f"not from {REPO}")
    import logging  # pylint: disable=import-outside-toplevel
    if not _DEBUG_LOGGING_ACTIVE:
        logging.getLogger('searchkit').setLevel(logging.CRITICAL)
        logging.getLogger('searchkit').propagate = False
        logging.getLogger('searchkit').handlers = [logging.NullHandler()]
    return searchkit


@contextlib.contextmanager
def debug_logging(on=True):
    """ run the code under test with the searchkit logger at DEBUG and a handler that really
    FORMATS every record (into a discarded buffer): log arguments are then evaluated (repr of
    objects, properties read for a message) - behaviour must not depend on that """
    if not on:
        yield
        return
    import io  # pylint: disable=import-outside-toplevel
    import logging  # pylint: disable=import-outside-toplevel
    lg = logging.getLogger('searchkit')
    saved = (lg.level, list(lg.handlers), lg.propagate)
    h = logging.StreamHandler(io.StringIO())
    h.setFormatter(logging.Formatter('%(asctime)s %(process)d %(levelname)s %(name)s %(message)s'))
    lg.handlers = [h]
    lg.setLevel(logging.DEBUG)
    lg.propagate = False
    _DEBUG_LOGGING_ACTIVE.append(1)
    try:
        yield
    finally:
        _DEBUG_LOGGING_ACTIVE.pop()
        lg.setLevel(saved[0])
        lg.handlers = saved[1]
        lg.propagate = saved[2]


# --------------------------------------------------------------------------
# Lean side
# --------------------------------------------------------------------------

def _lean_sources():
    out = []
    for root, dirs, files in os.walk(LEAN_DIR):
        dirs[:] = [d for d in dirs if d != '.lake']
        for f in files:
            if f.endswith('.lean') or f in ('lakefile.toml', 'obligations.json'):
                out.append(os.path.join(root, f))
    return sorted(out)


def lean_sources_hash():
    h = hashlib.sha256()
    for p in _lean_sources():
        h.update(p.encode())
        with open(p, 'rb') as f:
            h.update(f.read())
    return h.hexdigest()[:16]


def lean_build():
    """ lake build (no-op when up to date). Raises Infra on failure. """
    t0 = time.time()
    # lake is not safe to run concurrently in one package: serialise.
    import fcntl  # pylint: disable=import-outside-toplevel
    os.makedirs(os.path.join(LEAN_DIR, '.lake'), exist_ok=True)
    with open(os.path.join(LEAN_DIR, '.lake', 'verif.lock'), 'w') as lk:
        fcntl.flock(lk, fcntl.LOCK_EX)
        p = subprocess.run(['lake', 'build'], cwd=LEAN_DIR, text=True,
                           stdout=subprocess.PIPE, stderr=subprocess.STDOUT,
                           check=False)
    if p.returncode != 0 or not os.path.exists(DRIVER):
        raise Infra("lake build failed:\n" + p.stdout[-4000:])
    return time.time() - t0


FORBIDDEN = re.compile(r'\b(sorry|admit|native_decide|bv_decide|implemented_by)\b'
                       r'|^\s*axiom\s|unsafe\s|maxHeartbeats\s+0\b')


def _strip_comments(src):
    # remove /- ... -/ (nested) and -- ... comments
    out = []
    i, depth, n = 0, 0, len(src)
    while i < n:
        if src.startswith('/-', i):
            depth += 1
            i += 2
        elif depth and src.startswith('-/', i):
            depth -= 1
            i += 2
        elif depth:
            if src[i] == '\n':
                out.append('\n')
            i += 1
        elif src.startswith('--', i):
            while i < n and src[i] != '\n':
                i += 1
        else:
            out.append(src[i])
            i += 1
    return ''.join(out)


def grep_forbidden():
    hits = []
    for p in _lean_sources():
        if not p.endswith('.lean') or os.path.basename(p) == 'Driver.lean':
            continue
        with open(p) as f:
            src = _strip_comments(f.read())
        for ln, line in enumerate(src.splitlines(), 1):
            if FORBIDDEN.search(line):
                hits.append(f"{os.path.relpath(p, LEAN_DIR)}:{ln}: {line.strip()}")
    return hits


def load_obligations():
    with open(os.path.join(LEAN_DIR, 'obligations.json')) as f:
        return json.load(f)


def leanchecker():
    """ thorough tier: the toolchain's independent re-checker replays every declaration of the
    compiled library through the kernel (once per source hash; result cached under .lake).
    -> '' or a description of the failure """
    import fcntl
    cache = os.path.join(LEAN_DIR, '.lake', f'leanchecker_{lean_sources_hash()}.json')
    with open(os.path.join(LEAN_DIR, '.lake', 'leanchecker.lock'), 'w') as lk:
        fcntl.flock(lk, fcntl.LOCK_EX)
        if os.path.exists(cache):
            try:
                with open(cache) as f:
                    return json.load(f)['bad']
            except (ValueError, KeyError):
                pass
        try:
            p = subprocess.run(['lake', 'env', 'leanchecker', 'SkModel'], cwd=LEAN_DIR, text=True,
                               stdout=subprocess.PIPE, stderr=subprocess.STDOUT, check=False,
                               timeout=3600)
            bad = '' if p.returncode == 0 else f"exit {p.returncode}: {p.stdout[-400:]}"
        except (OSError, subprocess.TimeoutExpired) as e:
            bad = f"could not run: {e}"
        with open(cache, 'w') as f:
            json.dump({'bad': bad}, f)
        return bad


def audit(prop):
    """
    #print axioms for every theorem the property names in obligations.json.
    Returns dict(obligations=[...], discharged=[...], problems=[...]).
    The axioms report for all properties is produced once per source hash and cached
    under .lake (build output), so that 19 quick checks do not pay for it 19 times.
    """
    obl = load_obligations()
    names = sorted({t for ts in obl.values() for t in ts['theorems']})
    cache = os.path.join(LEAN_DIR, '.lake', f'audit_{lean_sources_hash()}.json')
    report = None
    if os.path.exists(cache):
        try:
            with open(cache) as f:
                report = json.load(f)
        except ValueError:
            report = None
    if report is None:
        src = "import SkModel\n" + ''.join(f"#print axioms {n}\n" for n in names)
        path = os.path.join(LEAN_DIR, '.lake', f'Audit_{os.getpid()}.lean')
        with open(path, 'w') as f:
            f.write(src)
        p = subprocess.run(['lake', 'env', 'lean', path], cwd=LEAN_DIR,
                           text=True, stdout=subprocess.PIPE,
                           stderr=subprocess.STDOUT, check=False)
        os.unlink(path)
        report = {'axioms': {}, 'raw_errors': []}
        text = p.stdout
        for m in re.finditer(r"'([^']+)' depends on axioms: \[([^\]]*)\]", text):
            report['axioms'][m.group(1)] = [a.strip() for a in
                                            m.group(2).replace('\n', ' ').split(',')
                                            if a.strip()]
        for m in re.finditer(r"'([^']+)' does not depend on any axioms", text):
            report['axioms'][m.group(1)] = []
        for line in text.splitlines():
            if 'error' in line:
                report['raw_errors'].append(line)
        report['forbidden'] = grep_forbidden()
        tmp = cache + f'.{os.getpid()}'
        with open(tmp, 'w') as f:
            json.dump(report, f)
        os.replace(tmp, cache)
    mine = obl.get(prop, {'theorems': []})['theorems']
    discharged, problems = [], []
    for t in mine:
        ax = report['axioms'].get(t)
        if ax is None:
            problems.append(f"theorem {t} missing or does not check")
        elif not set(ax) <= ALLOWED_AXIOMS:
            problems.append(f"theorem {t} uses axioms {ax}")
        else:
            discharged.append(t)
    for h in report.get('forbidden', []):
        problems.append(f"forbidden construct: {h}")
    if os.environ.get('VERIF_TIER_EFFECTIVE') == 'thorough':
        bad = leanchecker()
        if bad:
            problems.append(f"leanchecker: {bad}")
    return {'obligations': mine, 'discharged': discharged, 'problems': problems,
            'partial': obl.get(prop, {}).get('partial', [])}


class Driver:
    """ Batch interface to the native model driver. """
    def __init__(self):
        if not os.path.exists(DRIVER):
            raise Infra(f"model driver not built: {DRIVER}")

    def run(self, cases):
        if not cases:
            return []
        data = ''.join(json.dumps(c, separators=(',', ':')) + '\n' for c in cases)
        p = subprocess.run([DRIVER], input=data.encode(), stdout=subprocess.PIPE,
                           stderr=subprocess.PIPE, check=False)
        if p.returncode != 0:
            raise Infra(f"model driver failed rc={p.returncode}: "
                        f"{p.stderr.decode()[-2000:]}")
        lines = p.stdout.decode().splitlines()
        if len(lines) != len(cases):
            raise Infra(f"model driver answered {len(lines)} lines for "
                        f"{len(cases)} cases")
        out = [json.loads(ln) for ln in lines]
        for o in out:
            if '_bad' in o:
                raise Infra(f"model driver rejected a case: {o['_bad']}")
        return out


# --------------------------------------------------------------------------
# Sharded execution
# --------------------------------------------------------------------------

def _shard_entry(args):
    fn, shard_seed, count, extra = args
    try:
        return ('ok', fn(random.Random(shard_seed), count, extra))
    except Exception:  # pylint: disable=broad-except
        return ('exc', traceback.format_exc())
    finally:
        cov_save()


def run_sharded(fn, seed, total, extra=None, shards=None, workers=None):
    """
    Run fn(rng, count, extra) -> list in forked workers; one PRNG per shard derived
    from the single seed so that a run replays exactly. Returns the concatenation.
    """
    shards = shards or min(NCPU, max(1, total))
    workers = workers or NCPU
    per = [total // shards + (1 if i < total % shards else 0)
           for i in range(shards)]
    jobs = [(fn, (seed * 1000003 + i * 7919 + 1) & 0x7fffffff, per[i], extra)
            for i in range(shards) if per[i] > 0]
    out = []
    if len(jobs) == 1 or workers == 1:
        for j in jobs:
            st, val = _shard_entry(j)
            if st != 'ok':
                raise Infra("harness shard failed:\n" + val)
            out.extend(val)
        return out
    ctx = multiprocessing.get_context('fork')
    with concurrent.futures.ProcessPoolExecutor(max_workers=workers,
                                                mp_context=ctx) as ex:
        for st, val in ex.map(_shard_entry, jobs):
            if st != 'ok':
                raise Infra("harness shard failed:\n" + val)
            out.extend(val)
    return out


# --------------------------------------------------------------------------
# Verdicts, evidence, replay
# --------------------------------------------------------------------------

def canon(obj):
    return json.dumps(obj, sort_keys=True, separators=(',', ':'))


def digest(obj):
    return hashlib.sha256(canon(obj).encode()).hexdigest()[:12]


def repo_head():
    try:
        head = subprocess.run(['git', '-C', REPO, 'rev-parse', 'HEAD'],
                              text=True, stdout=subprocess.PIPE,
                              stderr=subprocess.DEVNULL, check=False).stdout.strip()
        dirty = subprocess.run(['git', '-C', REPO, 'status', '--porcelain',
                                '--untracked-files=no'],
                               text=True, stdout=subprocess.PIPE,
                               stderr=subprocess.DEVNULL, check=False).stdout.strip()
        return head + ('+dirty' if dirty else '')
    except OSError:
        return 'unknown'


def load_known_findings():
    path = os.path.join(VERIF, 'known_findings.json')
    if not os.path.exists(path):
        return []
    with open(path) as f:
        return [e for e in json.load(f) if isinstance(e, dict)]


def load_corpus(prop):
    d = os.path.join(CORPUS_DIR, prop)
    out = []
    if os.path.isdir(d):
        for n in sorted(os.listdir(d)):
            if n.endswith('.json'):
                with open(os.path.join(d, n)) as f:
                    c = json.load(f)
                c.setdefault('_corpus', n)
                out.append(c)
    return out


class Report:
    """ Collects what a check run saw and turns it into exit status + files. """
    def __init__(self, prop, tier, seed):
        self.prop = prop
        self.tier = tier
        self.seed = seed
        self.t0 = time.time()
        self.evaluations = 0
        self.nontrivial = set()
        self.samples = []
        self.counters = {}
        self.failures = []        # dicts: kind, case, impl, model, spec, what
        self.known_hits = {}      # signature -> what
        self.traces_validated = 0
        self.extra = {}
        self.assumptions = []

    def count(self, key, n=1):
        self.counters[key] = self.counters.get(key, 0) + n

    def note_case(self, case, nontrivial, sample=None):
        self.evaluations += 1
        if nontrivial:
            self.nontrivial.add(digest(case))
        if sample is not None and len(self.samples) < 3:
            self.samples.append(sample)

    def fail(self, kind, case, what, **obs):
        """ kind: 'failing-input' | 'correspondence-broken' """
        self.failures.append(dict(kind=kind, case=case, what=what, **obs))

    # -- final ---------------------------------------------------------------
    def finish(self, audit_info, rule, level_text=None, signature_fn=None):
        known = load_known_findings()
        mine = [k for k in known if k.get('property') == self.prop]
        violations = []
        for f in self.failures:
            sig = signature_fn(f) if signature_fn else None
            hit = next((k for k in mine if sig and k.get('signature') == sig), None)
            if hit is not None:
                self.known_hits[sig] = hit.get('what', '')
            else:
                violations.append(f)
        lines = []
        for sig, what in sorted(self.known_hits.items()):
            lines.append(f"KNOWN-FINDING: property={self.prop} {sig}: {what}")
        vio_lines = []
        if violations:
            # failing inputs first, smallest first
            violations.sort(key=lambda f: (f['kind'] != 'failing-input',
                                           len(canon(f['case']))))
            f = violations[0]
            os.makedirs(REPLAY_DIR, exist_ok=True)
            rp = os.path.join(REPLAY_DIR, f"{self.prop}-{digest(f['case'])}.json")
            with open(rp, 'w') as fh:
                json.dump({'property': self.prop, 'kind': f['kind'],
                           'what': f['what'],
                           'theorem_or_correspondence':
                               (audit_info['obligations'] or ['correspondence'])
                               if f['kind'] != 'failing-input' else None,
                           'seed': self.seed, 'tier': self.tier,
                           'case': f['case'],
                           'impl_obs': f.get('impl'), 'model_obs': f.get('model'),
                           'spec_obs': f.get('spec'),
                           'repo_head': repo_head(),
                           'how_to_replay': f"./check replay {os.path.relpath(rp, VERIF)}",
                           'other_failures': len(violations) - 1}, fh, indent=1,
                          default=str)
            tail = '' if f['kind'] == 'failing-input' else ' no-failing-input-found'
            vio_lines.append(f"VIOLATION property={self.prop} "
                             f"replay={os.path.relpath(rp, VERIF)}{tail}")
        proof_ok = not audit_info['problems']
        cov = {
            'obligations': len(audit_info['obligations']),
            'discharged': len(audit_info['discharged']),
            'checker_cmd': "cd lean && lake build && lake env lean <#print axioms "
                           "of every theorem in obligations.json>"
                           + (" && lake env leanchecker SkModel"
                              if self.tier == 'thorough' else ''),
            'trusted_base': TRUSTED_BASE,
            'theorems': audit_info['obligations'],
            'partial_theorems': audit_info.get('partial', []),
            'proof_problems': audit_info['problems'],
            'evaluations': self.evaluations,
            'distinct_nontrivial': len(self.nontrivial),
            'rule': rule,
            'samples': self.samples or [{'note': 'no case generated'}],
            'traces_validated_against_impl': self.traces_validated,
            'counters': dict(sorted(self.counters.items())),
            'known_findings_hit': sorted(self.known_hits),
            'repo_head': repo_head(),
        }
        cov.update(self.extra)
        ev = {'property_id': self.prop, 'tier': self.tier, 'seed': self.seed,
              'level': 'proof', 'coverage': cov,
              'assumptions': self.assumptions,
              'wall_s': round(time.time() - self.t0, 2),
              'violations': len(violations)}
        os.makedirs(EVIDENCE_DIR, exist_ok=True)
        with open(os.path.join(EVIDENCE_DIR, f"{self.prop}.json"), 'w') as fh:
            json.dump(ev, fh, indent=1, default=str)
        for ln in lines:
            print(ln)
        print(f"[{self.prop}] tier={self.tier} seed={self.seed} "
              f"theorems {len(audit_info['discharged'])}/"
              f"{len(audit_info['obligations'])} cases={self.evaluations} "
              f"nontrivial={len(self.nontrivial)} failures={len(self.failures)} "
              f"known={len(self.known_hits)} wall={ev['wall_s']}s")
        if not proof_ok:
            for pb in audit_info['problems']:
                print(f"PROOF-PROBLEM: {pb}")
            print("infrastructure: the proof side of this check does not build; "
                  "this is a defect of /verif, not a verdict about /repo")
            for ln in vio_lines:
                print(ln)
            return 1 if vio_lines else 2
        for ln in vio_lines:
            print(ln)
        return 1 if vio_lines else 0
