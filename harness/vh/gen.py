"""
Structured generators.  Every choice comes from the `random.Random` passed in.
Aimed at the *structure of the algorithms*: line lengths around the 64-byte
timestamp window and the 256-byte seek horizon and its multiples, lines that match
several roles of a sequence, optional groups, duplicated values, …
A separate malformed stream (invalid UTF-8, NUL, CR, look-alike timestamps) is
mixed in on request.
"""
from datetime import datetime, timedelta

WORDS = ['alpha', 'beta', 'gamma', 'S', 'B', 'E', 'x', 'err', 'warn', 'é',
         'naïve', '→', 'tag0', 't-start']
LEN_SET = ([0, 1, 2] + list(range(18, 31)) + [63, 64, 65, 255, 256, 257, 300, 400,
           511, 512, 513, 600, 700, 767, 768, 769, 770, 1023, 1024, 1025])

SIMPLE_PATS = [
    r'alpha', r'.*beta', r'(\w+) (\w+)', r'(\w+)(?: (\d+))?', r'^(\S+)\s+(\d+)$',
    r'.*?(\d+)', r'\s*$', r'(?P<w>\w+)', r'.*(gamma|beta) (\d+)?', r'x*', r'(.*)',
    r'(?s)(.*)', r'[^\n]*é', r'(\d+)', r'.*\b(S|B|E)\b', r'(\S+) (\S+) (\S+)',
    r'.+', r'(\w+)?\s*(\d+)?', r'.*(\d)(\d)?',
    # back-references and a conditional: a pattern's group NUMBERS are its own
    r'(\w+) \1\b', r'.*\b(\w+)\b.* \1$', r'(x)?(?(1)x| )\w+', r'(?P<v>\w)\w* (?P=v)',
]
HINTS = [None, None, None, 'beta', r'\d', 'zzz', r'^a', 'S', r'\s$']
TAGS = [None, 't1', 't2', 't1', 'shared', 's1-start']
FIELD_NAMES = ['fa', 'fb', 'fc', 'fd']

SEQ_START = [r'.*\bS\b', r'.*\bS\b(?: (\d+))?', r'S', r'(\w+ )*S( \d+)?']
SEQ_BODY = [r'.*\bB\b', r'(\w+)', r'.*B (\d+)', r'.*']
SEQ_END = [r'.*\bE\b', r'E', r'.*\bE\b( \d+)?']
SEQ_END_EMPTY = [r'(?:.*\bE\b)|\s*$', r'(.*\bE\b)?$', r'.*\bE\b|$']


def words_line(rng, seqish=False):
    k = rng.choice([0, 1, 1, 2, 2, 3, 3, 4, 5])
    ws = []
    for _ in range(k):
        r = rng.random()
        if seqish and r < 0.55:
            ws.append(rng.choice(['S', 'B', 'E', 'B', 'x']))
        elif r < 0.3:
            ws.append(str(rng.choice([0, 1, 2, 3, 7, 10, 42, 100, 2023])))
        else:
            ws.append(rng.choice(WORDS))
    sep = ' ' if rng.random() < 0.9 else rng.choice(['  ', '\t'])
    s = sep.join(ws)
    r = rng.random()
    if r < 0.05:
        s += ' '
    elif r < 0.08:
        s += '\r'
    return s.encode('utf-8')


def pad_to(rng, line, target):
    if len(line) >= target:
        return line
    fill = rng.choice([b'x', b'.', b'ab ', b'9'])
    need = target - len(line)
    return line + (b' ' if line and need > 1 else b'') + \
        (fill * need)[:need - (1 if line and need > 1 else 0)]


MALFORMED = [b'\xff\xfe', b'\x80', b'\xc3', b'\xe2\x82', b'\x00', b'a\x00b',
             b'\xed\xa0\x80', b'\xf0\x9f', b'\rmid\rcr', b'\xc3\x28']


def gen_lines(rng, n, seqish=False, malformed=0.0, longs=0.1):
    out = []
    for _ in range(n):
        ln = words_line(rng, seqish)
        if rng.random() < longs:
            ln = pad_to(rng, ln, rng.choice(LEN_SET))
        if malformed and rng.random() < malformed:
            pos = rng.randrange(len(ln) + 1)
            ln = ln[:pos] + rng.choice(MALFORMED) + ln[pos:]
        out.append(ln)
    return out


def assemble(rng, lines, final_lf=None):
    if not lines:
        return b''
    if final_lf is None:
        final_lf = rng.random() < 0.8
    return b'\n'.join(lines) + (b'\n' if final_lf else b'')


def n_lines(rng, tier):
    r = rng.random()
    if r < 0.05:
        return 0
    if r < 0.15:
        return 1
    if r < 0.7:
        return rng.randrange(2, 12)
    if r < 0.95 or tier != 'thorough':
        return rng.randrange(12, 60)
    return rng.randrange(60, 700)


def gen_fields(rng, ngroups):
    if ngroups == 0 or rng.random() < 0.6:
        return None, True
    names = rng.sample(FIELD_NAMES, min(ngroups, len(FIELD_NAMES)))
    as_dict = rng.random() < 0.7
    return [[nm, (rng.choice([None, 'str']) if as_dict else None)]
            for nm in names], as_dict


def gen_sd(rng, pool, allow_fields=True, typed_int_ok=False):
    import re
    k = rng.choice([1, 1, 1, 2, 3])
    pats = [rng.choice(pool) for _ in range(k)]
    sd = {'pats': pats, 'hint': rng.choice(HINTS) if rng.random() < 0.5 else None,
          'store': rng.random() < 0.9}
    if len(pats) == 1 and rng.random() < 0.3:
        sd['as_list'] = True
    counts = {re.compile(p).groups for p in pats}
    if allow_fields and len(counts) == 1 and 0 not in counts:
        fields, as_dict = gen_fields(rng, counts.pop())
        if fields:
            sd['fields'] = fields
            sd['fields_dict'] = as_dict
    return sd


def gen_simple_def(rng):
    d = gen_sd(rng, SIMPLE_PATS)
    d['type'] = 'simple'
    d['tag'] = rng.choice(TAGS)
    return d


def gen_seq_def(rng, idx=0):
    d = {'type': 'seq', 'tag': rng.choice(['s1', 's2', 'shared', 't1']),
         'start': gen_sd(rng, SEQ_START)}
    d['start']['hint'] = None if rng.random() < 0.8 else 'S'
    if rng.random() < 0.75:
        d['body'] = gen_sd(rng, SEQ_BODY)
    r = rng.random()
    if r < 0.45:
        d['end'] = gen_sd(rng, SEQ_END)
    elif r < 0.7:
        d['end'] = gen_sd(rng, SEQ_END_EMPTY)
    for part in ('start', 'body', 'end'):
        # marker-only parts (store_result_contents=False) are results of the sequence like any
        # other: about one part in five does not store its contents
        if d.get(part):
            d[part]['store'] = rng.random() < 0.8
    return d


# --------------------------------------------------------------------------
# logs with timestamps
# --------------------------------------------------------------------------

BASE = datetime(2023, 1, 1, 0, 0, 0)


def gen_times(rng, n, ordered=True):
    """ n datetimes; ordered -> non-decreasing with repeats """
    t = BASE + timedelta(seconds=rng.randrange(0, 400 * 86400))
    out = []
    for _ in range(n):
        r = rng.random()
        if r < 0.25:
            step = 0
        elif r < 0.6:
            step = rng.randrange(1, 120)
        elif r < 0.9:
            step = rng.randrange(120, 86400)
        else:
            step = rng.randrange(86400, 20 * 86400)
        t = t + timedelta(seconds=step)
        out.append(t)
    if not ordered:
        rng.shuffle(out)
    return out


def gen_run_scenario(rng, tier, nfiles=1, seq=0.3, constraint=0.3, empty=0.15,
                     lines=None, kind='std'):
    """
    General scenario for whole-run checks: `nfiles` files (some empty), simple and
    sequence searches registered on subsets of the files, optional file-level since
    constraint on time-stamped logs.
    """
    from vh import seekcheck as K
    files, all_times = [], []
    use_ts = rng.random() < constraint
    for k in range(nfiles):
        if rng.random() < empty:
            content = b''
        elif use_ts:
            content, times = K.gen_log(rng, lines if lines is not None else n_lines(rng, tier),
                                       kind, ordered=True, undated=0.2, longs=0.1)
            all_times += times
        else:
            content = assemble(rng, gen_lines(rng, lines if lines is not None
                                               else n_lines(rng, tier), seqish=True, longs=0.05))
        files.append({'name': f'f{k}.log', 'content': content.hex()})
    if nfiles >= 2 and rng.random() < 0.15:
        # files of the SAME NAME in different directories (one log per service / host)
        for k, f in enumerate(files):
            f['name'] = f'd{k}/app.log'
    defs = []
    for _ in range(rng.choice([1, 2, 3, 4])):
        defs.append(gen_seq_def(rng) if rng.random() < seq else gen_simple_def(rng))
    regs = []
    for i in range(len(defs)):
        for k in range(nfiles):
            if rng.random() < 0.8:
                regs.append([i, k])
    for k in range(nfiles):
        if not any(r[1] == k for r in regs):
            regs.append([rng.randrange(len(defs)), k])
    if rng.random() < 0.15:
        regs.append(list(rng.choice(regs)))
    scn = {'files': files, 'defs': defs, 'regs': regs}
    if use_ts:
        scn['constraints'] = [K.gen_since(rng, all_times, kind)]
        scn['global'] = 0
    if rng.random() < 0.3:
        scn['decode_errors'] = rng.choice(['ignore', 'replace', 'backslashreplace', 'surrogateescape'])
    if nfiles > 1:
        scn['max_parallel_tasks'] = rng.choice([0, 1, 2, 3, 8, 16])
    return scn


def magic_prefixed(rng, content):
    """ a PLAIN file whose first two bytes are the gzip magic number: `gzip.open(...).peek()`
    refuses it ("Unknown compression method": third byte is not 8, and there are the >= 10
    bytes the header reader wants), so it is text like any other """
    head = b'\x1f\x8b' + bytes([rng.choice([0, 7, 9, 0x0a, 0x20, 0x41, 0x8b])])
    data = head + content
    if len(data) < 10:
        data += b' padding..\n'
    return data
